#!/bin/bash
# usage: tools/round4.sh <PROP> [extra props to sweep]  - confirm both round-4 changes of a property, then sweep the quick check(s)
cd "$(dirname "$0")/.."
p=$1; shift
i=0
for l in a b; do
  i=$((i+1))
  [ -d /tmp/seed4/out/${p}_$l ] || continue
  python3 tools/confirm_seed.py /tmp/seed4/out/${p}_$l ${p}_r4_$i > /tmp/seed4/out/${p}_$l.confirm.json 2>&1
  if grep -q '"confirmed": true' /tmp/seed4/out/${p}_$l.confirm.json; then
    echo "CONFIRMED ${p}_r4_$i"
    tools/sweep_patch.sh seeded/${p}_r4_$i/patch.diff $p "$@"
  else
    echo "NOT-CONFIRMED ${p}_r4_$i"; grep -E '"(demo_without|apply|build|demo_with|stable_tests_with_patch)"' /tmp/seed4/out/${p}_$l.confirm.json
  fi
done

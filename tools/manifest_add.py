#!/usr/bin/env python3
"""usage: manifest_add.py <ID> <technique> <level text> <level note>   (adds or replaces a check entry)"""
import json, sys
pid, tech, text, note = sys.argv[1:5]
m = json.load(open('/verif/MANIFEST.json'))
m['checks'] = [c for c in m['checks'] if c['property_id'] != pid]
m['checks'].append({
 "property_id": pid, "quick_cmd": "./check.sh %s quick" % pid, "thorough_cmd": "./check.sh %s thorough" % pid,
 "evidence_file": "/verif/evidence/%s.json" % pid, "replay_cmd_template": "bin/symgo replay {path}", "engine": "symgo",
 "technique": tech,
 "level_claimed": {"category": "model_checking", "design_ref": "DESIGN.md section 4 " + pid, "text": text},
 "level_note": note})
m['checks'].sort(key=lambda c: c['property_id'])
sp = set(m['engines'][0]['serves_properties']); sp.add(pid)
m['engines'][0]['serves_properties'] = sorted(sp)
m['not_applicable'] = [n for n in m.get('not_applicable', []) if n['property_id'] != pid]
json.dump(m, open('/verif/MANIFEST.json', 'w'), indent=1)

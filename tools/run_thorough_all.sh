#!/bin/bash
# runs every thorough check in turn with a per-check time limit; prints one summary line each
cd "$(dirname "$0")/.."
for p in ${PROPS:-C02 C03 C05 C06 C11 C16 C17 C20 C13 C15 C14 C10 C04 C09 C01 C07 C18 C08}; do
  s=$(date +%s)
  out=$(timeout ${LIMIT:-3000} ./check.sh $p thorough 2>&1 | grep -v "^\[path" | grep -E "held on|VIOLATION|INCONCLUSIVE|VACUOUS|symgo: $p" | head -6 | cut -c1-260 | tr '\n' '|')
  e=$(date +%s)
  echo "$p $((e-s))s $out"
done

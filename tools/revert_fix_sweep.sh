#!/bin/bash
# For every "fix:" commit of /repo: re-introduce the defect (reverse patch) in the working tree,
# run the quick check(s) of the property it belongs to, record whether a VIOLATION is reported, undo.
# usage: tools/revert_fix_sweep.sh > /verif/seeded/reverted_fixes.tsv
cd /verif
declare -A MAP=(
 [60e41c9]="C17" [1de1810]="C17" [6f92e6f]="C06" [e5e9a20]="C05" [442c464]="C13" [00ebc40]="C03 C06" [865bb3e]="C02"
 [4a965ce]="C03 C05" [41d268f]="C01" [cf04554]="C13" [11fad4d]="C11 C04" [06aa1bc]="C10" [5f03f21]="C09" [ac4f06f]="C09"
 [94c70bb]="C09" [838b0cf]="C09 C07" [12625d7]="C04" [bdafb38]="C04" [0c908f5]="C10" [bc37d9d]="C10" [0f58f34]="C10"
 [57c93ce]="C11" [196ee5a]="C08" [c256055]="C08" [7eff34c]="C04 C08" [fc7f633]="C20"
)
for sha in $(git -C /repo log --format=%h --reverse 9269aca..HEAD); do
  props=${MAP[$sha]}
  subj=$(git -C /repo log --format=%s -1 $sha)
  git -C /repo show -R $sha | git -C /repo apply 2>/dev/null || git -C /repo show -R $sha | git -C /repo apply --3way 2>/dev/null
  if [ -z "$(git -C /repo status --short)" ]; then echo -e "$sha\t-\tREVERSE-PATCH-DID-NOT-APPLY\t$subj"; continue; fi
  if ! (cd /repo && go build ./... 2>/dev/null); then git -C /repo checkout -- . ; git -C /repo reset -q; echo -e "$sha\t-\tDOES-NOT-BUILD\t$subj"; continue; fi
  res=""
  for p in $props; do
    out=$(timeout 1500 ./bin/symgo check $p quick 2>&1 | grep -E "^VIOLATION|held on everything|^INCONCLUSIVE" | head -2 | tr '\n' ' ')
    res="$res $p:{$(echo $out | cut -c1-160)}"
  done
  git -C /repo checkout -- . ; git -C /repo reset -q
  echo -e "$sha\t$props\t$res\t$subj"
done

#!/bin/bash
# Run quick (or $TIER) checks against a scratch worktree of /repo with a patch applied; never touches /repo's
# working tree or /verif's evidence (a private copy of /verif's harness/known findings/bin is used).
# usage: tools/sweep_patch.sh <patch.diff> <PROP> [<PROP>...]     env: TIER=quick|thorough  TMO=seconds
# prints one line:  <patch> | <PROP>: <verdict line> | ...
set -u
export GOFLAGS=-mod=mod GOPROXY=off GOSUMDB=off GOTOOLCHAIN=local
patch=$(readlink -f "$1"); shift
tier=${TIER:-quick}
wt=$(mktemp -d /tmp/sweepwt_XXXXXX); rmdir "$wt"
vd=$(mktemp -d /tmp/sweepvd_XXXXXX)
cleanup() { git -C /repo worktree remove --force "$wt" >/dev/null 2>&1; rm -rf "$wt" "$vd"; }
trap cleanup EXIT
git -C /repo worktree add -q --detach "$wt" HEAD || { echo "$patch | WORKTREE-FAILED"; exit 2; }
if ! git -C "$wt" apply --recount -C1 "$patch" 2>/dev/null && ! git -C "$wt" apply --3way "$patch" 2>/dev/null; then echo "$(basename $(dirname $patch))/$(basename $patch) | PATCH-DID-NOT-APPLY"; exit 2; fi
if ! (cd "$wt" && go build ./... 2>/dev/null); then echo "$patch | DOES-NOT-BUILD"; exit 2; fi
mkdir -p "$vd/bin"; cp -r /verif/harness /verif/known_findings.json "$vd/"; cp /verif/bin/symgo "$vd/bin/"
res=""
for p in "$@"; do
  full=$(VERIF_REPO="$wt" VERIF_DIR="$vd" timeout ${TMO:-1500} "$vd/bin/symgo" check $p $tier ${EXTRA:-} 2>&1; echo "EXIT=$?")
  out=$( (echo "$full" | grep -E "^VIOLATION" | head -2; echo "$full" | grep -E "^  harness=|held on everything|^INCONCLUSIVE|^VACUOUS|^KNOWN|panic|fatal|rror:|^EXIT=" | head -3) | tr '\n' ' ' | sed "s#$vd#/verif#g")
  [ -z "$out" ] && out="NO-VERDICT(timeout/crash)"
  res="$res | $p: $(echo $out | cut -c1-260)"
done
echo "$(basename $(dirname $patch))/$(basename $patch)$res"

#!/usr/bin/env python3
"""Confirm a seeded breaking change in a scratch worktree of /repo and store it under /verif/seeded/.
usage: confirm_seed.py <out_dir> <name>   (env SEEDROOT=/tmp/seed or /tmp/seed2)
Checks: patch applies, go build ok, stable tests pass with patch, demo passes without and fails with the patch."""
import json, os, re, shutil, subprocess, sys, tempfile, glob
out, name = sys.argv[1], sys.argv[2]
env = dict(os.environ, GOFLAGS='-mod=mod', GOPROXY='off', GOSUMDB='off', GOTOOLCHAIN='local')
meta = json.load(open(os.path.join(out, 'meta.json')))
wt = tempfile.mkdtemp(prefix='seedwt_')
os.rmdir(wt)
def run(cmd, cwd=wt, timeout=900):
    p = subprocess.run(cmd, shell=True, cwd=cwd, env=env, capture_output=True, text=True, timeout=timeout)
    return p.returncode, (p.stdout + p.stderr)
res = {'name': name}
try:
    subprocess.check_call(['git', '-C', '/repo', 'worktree', 'add', '-q', '--detach', wt, 'HEAD'])
    demos = [f for f in glob.glob(os.path.join(out, '*')) if os.path.basename(f) not in ('meta.json', 'patch.diff', 'suite.log') and os.path.isfile(f)]
    place = meta.get('demo_place', '')
    if isinstance(place, list): place = place[0]
    place = place.strip()
    m = re.search(r'([\w./-]+_test\.go)', place)
    placefile = m.group(1) if m else place
    demo = demos[0]
    if placefile.endswith('/') or not placefile.endswith('.go'):
        placefile = os.path.join(placefile, os.path.basename(demo))
    dst = os.path.join(wt, placefile)
    shutil.copy(demo, dst)
    cmd = meta.get('demo_cmd', '')
    m = re.search(r'(go test .*)$', cmd.strip().split('&&')[-1])
    demo_cmd = m.group(1) if m else 'go test -vet=off -count=1 ./' + os.path.dirname(placefile)
    demo_cmd = demo_cmd.replace('/tmp/seed2/%s' % name.split('_')[0], wt).replace('/tmp/seed/%s' % name.split('_')[0], wt)
    rc0, o0 = run(demo_cmd)
    res['demo_without'] = 'pass' if rc0 == 0 else 'FAIL'
    rc, o = run('git apply --recount -C1 %s' % os.path.join(out, 'patch.diff'))
    if rc != 0:
        rc, o = run('git apply --3way %s' % os.path.join(out, 'patch.diff'))
    res['apply'] = 'ok' if rc == 0 else 'FAILED: ' + o[-300:]
    rcb, ob = run('go build ./...')
    res['build'] = 'ok' if rcb == 0 else 'FAILED: ' + ob[-300:]
    rc1, o1 = run(demo_cmd)
    res['demo_with'] = 'fail' if rc1 != 0 else 'PASSES'
    res['demo_fail_excerpt'] = '\n'.join([l for l in o1.splitlines() if 'FAIL' in l or 'Error' in l or 'panic' in l][:6])
    os.remove(dst)
    rct, ot = run("go test -vet=off -count=1 -run 'TestSFO|TestParseIPRange|TestINIBasic' ./...")
    res['stable_tests_with_patch'] = 'pass' if rct == 0 else 'FAIL: ' + ot[-400:]
    res['demo_cmd'] = demo_cmd
    res['demo_place'] = placefile
    ok = res['demo_without'] == 'pass' and res['apply'] == 'ok' and res['build'] == 'ok' and res['demo_with'] == 'fail' and res['stable_tests_with_patch'] == 'pass'
    res['confirmed'] = ok
    if ok:
        d = os.path.join('/verif/seeded', name)
        os.makedirs(d, exist_ok=True)
        # store the patch as it applies to the current HEAD
        run('git add -A -N .')  # new files of the change are part of the patch
        rc, diff = run('git diff')
        open(os.path.join(d, 'patch.diff'), 'w').write(diff)
        shutil.copy(demo, os.path.join(d, os.path.basename(demo)))
        meta_out = {'property': meta.get('property'), 'what': meta.get('what'), 'needs': meta.get('needs'),
                    'files_changed': meta.get('files_changed'), 'demo_place': placefile, 'demo_cmd': demo_cmd,
                    'origin': 'written by an independent sub-agent that saw only the property text',
                    'confirmed_by_me': 'scratch worktree of /repo HEAD %s: demo passes without the patch, fails with it (%s); go build ./... ok; stable tests (TestSFO, TestParseIPRange, TestINIBasic) pass with the patch' % (
                        subprocess.check_output(['git', '-C', '/repo', 'rev-parse', '--short', 'HEAD'], text=True).strip(), res['demo_fail_excerpt'][:200].replace('\n', ' | '))}
        json.dump(meta_out, open(os.path.join(d, 'meta.json'), 'w'), indent=1)
finally:
    subprocess.call(['git', '-C', '/repo', 'worktree', 'remove', '--force', wt])
print(json.dumps(res, indent=1))

#!/bin/bash
# usage: tools/round5.sh <PROP> [extra props]  - confirm the round-5 change of a property, then sweep the quick check(s)
cd "$(dirname "$0")/.."
p=$1; shift
[ -d /tmp/seed5/out/${p}_a ] || { echo "no output for $p"; exit 1; }
python3 tools/confirm_seed.py /tmp/seed5/out/${p}_a ${p}_r5_1 > /tmp/seed5/out/${p}_a.confirm.json 2>&1
if grep -q '"confirmed": true' /tmp/seed5/out/${p}_a.confirm.json; then
  echo "CONFIRMED ${p}_r5_1"; tools/sweep_patch.sh seeded/${p}_r5_1/patch.diff $p "$@"
else
  echo "NOT-CONFIRMED ${p}_r5_1"; grep -E '"(demo_without|apply|build|demo_with|stable_tests_with_patch)"' /tmp/seed5/out/${p}_a.confirm.json
fi

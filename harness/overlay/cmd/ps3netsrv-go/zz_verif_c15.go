//go:build verif

package main

// C15 (wiring): the server command puts the client limit and the whitelist filter in one chain,
// filter outermost, so that a rejected peer is closed and gives its slot back.
// The limiter itself (golang.org/x/net/netutil, channel semaphore) is replaced by a counting stub:
// what is decided is the repository's own wiring and the close-on-reject premise.

import (
	"errors"
	"net"

	"golang.org/x/net/netutil"

	"github.com/xakep666/ps3netsrv-go/internal/handler"
	"github.com/xakep666/ps3netsrv-go/internal/verifrt"
	"github.com/xakep666/ps3netsrv-go/internal/verifstub"
	"github.com/xakep666/ps3netsrv-go/pkg/iprange"
	"github.com/xakep666/ps3netsrv-go/pkg/server"
)

type verifRawListener struct {
	conns []*verifstub.Conn
	pos   int
}

var verifListenErr = errors.New("verif: no more connections")

func (l *verifRawListener) Accept() (net.Conn, error) {
	if l.pos >= len(l.conns) {
		return nil, verifListenErr
	}
	c := l.conns[l.pos]
	l.pos++
	return c, nil
}
func (l *verifRawListener) Close() error   { return nil }
func (l *verifRawListener) Addr() net.Addr { return &net.TCPAddr{} }

// counting stand-in for netutil.LimitListener
type verifLimitListener struct {
	net.Listener
	n                  int
	acquired, released int
}

type verifLimitConn struct {
	net.Conn
	l        *verifLimitListener
	released bool
}

func (c *verifLimitConn) Close() error {
	if !c.released {
		c.released = true
		c.l.released++
	}
	return c.Conn.Close()
}

func (l *verifLimitListener) Accept() (net.Conn, error) {
	c, err := l.Listener.Accept()
	if err != nil {
		return nil, err
	}
	l.acquired++
	return &verifLimitConn{Conn: c, l: l}, nil
}

var verifWiring struct {
	raw      *verifRawListener
	limit    *verifLimitListener
	served   net.Listener
	srv      *server.Server[handler.State]
	listened string
	real     bool // Serve harness: only the listening socket is a stub, everything above it is the real code
}

func verifStub_main_listenTCP(addr string) (net.Listener, error) {
	verifWiring.listened = addr
	return verifWiring.raw, nil
}

func verifStub_netutil_LimitListener(l net.Listener, n int) net.Listener {
	if verifWiring.real {
		return netutil.LimitListener(l, n)
	}
	verifWiring.limit = &verifLimitListener{Listener: l, n: n}
	return verifWiring.limit
}

func verifStub_server_Server_Serve(s *server.Server[handler.State], ln net.Listener) error {
	if verifWiring.real {
		return s.Serve(ln)
	}
	verifWiring.srv, verifWiring.served = s, ln
	return nil
}

func VerifC15_Wiring() {
	verifrt.NativeUnsupported("listenTCP, netutil.LimitListener and Server.Serve are replaced by engine-injected stubs")
	outside := &verifstub.Conn{Remote: &net.TCPAddr{IP: net.IP{10, 0, 0, 1}}}
	inside := &verifstub.Conn{Remote: &net.TCPAddr{IP: net.IP{127, 0, 0, 5}}}
	verifWiring.raw = &verifRawListener{conns: []*verifstub.Conn{outside, inside}}
	verifWiring.limit, verifWiring.served, verifWiring.srv = nil, nil, nil
	useLimit, useWhitelist := verifrt.Bool("maxclients.set"), verifrt.Bool("whitelist.set")
	sapp := &serverApp{ListenAddr: "127.0.0.1:38008", Root: "/srv/root", AllowWrite: verifrt.Bool("allowwrite"), ReadTimeout: 7, BufferSize: 4}
	if useLimit {
		sapp.MaxClients = 1 + verifrt.Choice("maxclients", 3)
	}
	if useWhitelist {
		sapp.ClientWhitelist = iprange.New(net.IP{127, 0, 0, 1}, net.IP{127, 0, 0, 254})
	}
	err := sapp.server()
	verifrt.Assert(err == nil && verifWiring.served != nil && verifWiring.listened == "127.0.0.1:38008", "wiring.serves-the-listen-address")
	h, isH := verifWiring.srv.Handler.(*handler.Handler)
	verifrt.Assert(isH && h.AllowWrite == sapp.AllowWrite && verifWiring.srv.ReadTimeout == sapp.ReadTimeout, "wiring.settings-reach-the-server")
	if useLimit && verifWiring.limit == nil {
		// the limit is not built with netutil.LimitListener: this harness sees the limit only through that call
		// (VerifC15_Serve drives the real accept path whatever it is made of)
		verifrt.Inconclusive("client limit is not realised with netutil.LimitListener; the wiring harness cannot observe it")
	}
	verifrt.Assert(useLimit || verifWiring.limit == nil, "wiring.no-limit-unless-set")
	if useLimit {
		verifrt.Assert(verifWiring.limit.n == sapp.MaxClients, "wiring.limit-value")
	}
	// drive the served listener: the outsider arrives first
	c, aerr := verifWiring.served.Accept()
	verifrt.Assert(aerr == nil && c != nil, "wiring.accepts")
	if useWhitelist {
		verifrt.Assert(outside.Closes == 1 && len(outside.ReadsAfter) == 0 && len(outside.Out) == 0, "wiring.outsider-closed-untouched")
		verifrt.Assert(inside.Closes == 0 && c.RemoteAddr() == net.Addr(inside.Remote), "wiring.insider-served")
	} else {
		verifrt.Assert(outside.Closes == 0 && c.RemoteAddr() == net.Addr(outside.Remote), "wiring.no-filter-without-whitelist")
	}
	if useLimit {
		// every accepted connection went through the limiter, and the rejected one gave its slot back
		verifrt.Assert(verifWiring.limit.acquired-verifWiring.limit.released == 1, "wiring.one-slot-in-use")
		_ = c.Close()
		verifrt.Assert(verifWiring.limit.acquired == verifWiring.limit.released, "wiring.capacity-recovers")
	}
}

// C15 (capacity recovers, rejected peers untouched) through the REAL accept path: serverApp.server() with the real
// netutil.LimitListener (channel semaphore), the real filter listener, the real Server.Serve loop and the real
// serveConn; only the listening socket is a stub that hands out a fixed arrival sequence and then fails.
// Goroutines follow the engine's cooperative schedule (engine/sched.go): each `go serveConn` is queued and runs to
// completion when the accept loop blocks on the semaphore or has returned. Under that schedule:
//   - the accept loop never blocks for good (every ended and every rejected connection gives its slot back:
//     a lost slot shows up as a DEADLOCK after N such arrivals - the arrival sequence is longer than 2N);
//   - a peer outside the whitelist is closed without a single read or response byte;
//   - every other peer is served (the server reads from it) and closed at its end.
// Not decided here: "at most N at any moment" under true interleavings (one connection runs at a time).
func VerifC15_Serve() {
	verifrt.NativeUnsupported("listenTCP is replaced by an engine-injected stub; goroutines follow the engine's cooperative schedule")
	verifrt.Goroutines()
	useLimit, useWhitelist := verifrt.Bool("maxclients.set"), verifrt.Bool("whitelist.set")
	n := 1 + verifrt.Choice("maxclients", 2)
	k := verifrt.Bound("C15.serve.arrivals", 5, 6)
	var conns []*verifstub.Conn
	var inside []bool
	for i := 0; i < k; i++ {
		in := verifrt.Bool("arrival.whitelisted")
		ip := net.IP{10, 0, 0, byte(1 + i)}
		if in {
			ip = net.IP{127, 0, 0, byte(1 + i)}
		}
		// an unknown opcode: the server reads the command and ends the connection without answering
		conns = append(conns, &verifstub.Conn{Remote: &net.TCPAddr{IP: ip, Port: 4000 + i}, In: []byte{0x77, 0x77, 0, 0, 0, 0, 0, 0, 0, 0, 0, 0, 0, 0, 0, 0}})
		inside = append(inside, in)
	}
	verifWiring.raw = &verifRawListener{conns: conns}
	verifWiring.limit, verifWiring.served, verifWiring.srv = nil, nil, nil
	verifWiring.real = true
	sapp := &serverApp{ListenAddr: "127.0.0.1:38008", Root: "/srv/root", ReadTimeout: 7, BufferSize: 4}
	if useLimit {
		sapp.MaxClients = n
	}
	if useWhitelist {
		sapp.ClientWhitelist = iprange.New(net.IP{127, 0, 0, 1}, net.IP{127, 0, 0, 254})
	}
	err := sapp.server() // returns when the socket fails - unless the accept loop hangs (reported as a deadlock)
	verifWiring.real = false
	verifrt.Assert(err != nil, "serve.ends-with-the-socket-error")
	verifrt.Assert(verifWiring.raw.pos == k, "serve.every-arrival-accepted")
	verifrt.Yield() // connections still being served finish
	for i, c := range conns {
		if useWhitelist && !inside[i] {
			verifrt.Assert(c.Closes >= 1 && len(c.ReadsAfter) == 0 && len(c.Out) == 0, "serve.outsider-closed-untouched")
		} else {
			verifrt.Assert(len(c.ReadsAfter) >= 1, "serve.peer-served")
			verifrt.Assert(c.Closes >= 1, "serve.connection-closed-at-end")
		}
	}
}

//go:build verif

package main

// C20 (trace level): what the offline tools send to their output handle, and that the output-file
// mapper never opens an existing path. *os.File values are opaque handles; their methods, fmt output,
// os.Stat/os.OpenFile, the OS file system behind afero.OsFs and three kong/reflect calls are replaced by
// engine-injected stubs that record events (DESIGN.md section 4, C20).

import (
	"errors"
	"io"
	"io/fs"
	"os"
	"reflect"

	"github.com/alecthomas/kong"
	"github.com/spf13/afero"

	"github.com/xakep666/ps3netsrv-go/internal/kongutil"
	"github.com/xakep666/ps3netsrv-go/internal/verifrt"
	"github.com/xakep666/ps3netsrv-go/internal/verifstub"
	pfs "github.com/xakep666/ps3netsrv-go/pkg/fs"
)

type verifHandleState struct {
	f       *os.File
	backing *verifstub.File // content for reads (input images, key files)
	written int64           // bytes received through ReadFrom/Write
	chunks  int
	text    int // formatted text written to this handle
	data    []byte // the bytes received, in order (kept only when keep is set)
	keep    bool
}

var verifOS struct {
	handles []*verifHandleState
	tree    *verifstub.Fs
	events  []string // os.Stat / os.OpenFile calls: "stat:<path>", "open:<path>:<flags>"
	exists  bool     // does the output path exist?
	opened  *os.File
	popped  string
	setTo   interface{}
	lastVal interface{}
}

func verifHandle(f *os.File) *verifHandleState {
	for _, h := range verifOS.handles {
		if h.f == f {
			return h
		}
	}
	h := &verifHandleState{f: f}
	verifOS.handles = append(verifOS.handles, h)
	return h
}

// ---- *os.File ----

func verifStub_os_File_ReadFrom(f *os.File, r io.Reader) (int64, error) {
	h := verifHandle(f)
	buf := make([]byte, 8192)
	var total int64
	for {
		n, err := r.Read(buf)
		total += int64(n)
		if h.keep && n > 0 {
			h.data = append(h.data, buf[:n]...)
		}
		if n > 0 {
			h.chunks++
		}
		if err == io.EOF {
			h.written += total
			return total, nil
		}
		if err != nil {
			h.written += total
			return total, err
		}
	}
}
func verifStub_os_File_Write(f *os.File, p []byte) (int, error) {
	h := verifHandle(f)
	h.written += int64(len(p))
	h.chunks++
	if h.keep {
		h.data = append(h.data, p...)
	}
	return len(p), nil
}
func verifStub_os_File_Read(f *os.File, p []byte) (int, error) { return verifHandle(f).backing.Read(p) }
func verifStub_os_File_ReadAt(f *os.File, p []byte, off int64) (int, error) {
	return verifHandle(f).backing.ReadAt(p, off)
}
func verifStub_os_File_Seek(f *os.File, off int64, whence int) (int64, error) {
	return verifHandle(f).backing.Seek(off, whence)
}
func verifStub_os_File_Name(f *os.File) string               { return "image.iso" }
func verifStub_os_File_Close(f *os.File) error               { return nil }
func verifStub_os_File_Stat(f *os.File) (os.FileInfo, error) { return verifHandle(f).backing.Stat() }

// ---- formatted output ----

func verifStub_fmt_Printf(format string, a ...any) (int, error) {
	verifHandle(os.Stdout).text++
	return len(format), nil
}
func verifStub_fmt_Println(a ...any) (int, error) {
	verifHandle(os.Stdout).text++
	return 1, nil
}
func verifStub_fmt_Fprintf(w io.Writer, format string, a ...any) (int, error) {
	if f, ok := w.(*os.File); ok {
		verifHandle(f).text++
	}
	return len(format), nil
}
func verifStub_fmt_Fprintln(w io.Writer, a ...any) (int, error) {
	if f, ok := w.(*os.File); ok {
		verifHandle(f).text++
	}
	return 1, nil
}
func verifStub_fmt_Fprint(w io.Writer, a ...any) (int, error) {
	if f, ok := w.(*os.File); ok {
		verifHandle(f).text++
	}
	return 1, nil
}
func verifStub_fmt_Print(a ...any) (int, error) {
	verifHandle(os.Stdout).text++
	return 1, nil
}

// ---- OS file system ----

func verifStub_afero_OsFs_Open(o afero.OsFs, name string) (afero.File, error) {
	return verifOS.tree.Open(name)
}
func verifStub_afero_OsFs_Stat(o afero.OsFs, name string) (os.FileInfo, error) {
	return verifOS.tree.Stat(name)
}
func verifStub_afero_OsFs_OpenFile(o afero.OsFs, name string, flag int, perm os.FileMode) (afero.File, error) {
	return verifOS.tree.OpenFile(name, flag, perm)
}

func verifStub_os_Stat(name string) (fs.FileInfo, error) {
	verifOS.events = append(verifOS.events, "stat:"+name)
	if verifOS.exists {
		return &verifstub.Info{NameV: name, DirV: verifrt.Bool("existing-is-dir")}, nil
	}
	return nil, os.ErrNotExist
}
func verifStub_os_OpenFile(name string, flag int, perm os.FileMode) (*os.File, error) {
	verifOS.events = append(verifOS.events, "open:"+name)
	verifrt.Assert(flag&(os.O_TRUNC|os.O_APPEND) == 0, "mapper.never-truncates-or-appends")
	verifrt.Assert(!verifOS.exists, "mapper.never-opens-an-existing-path")
	verifOS.opened = &os.File{}
	return verifOS.opened, nil
}

// ---- kong / reflect plumbing of the mapper ----

func verifStub_kong_Scanner_PopValueInto(s *kong.Scanner, context string, target any) error {
	*(target.(*string)) = verifOS.popped
	return nil
}
func verifStub_kong_ExpandPath(path string) string {
	if len(path) >= 2 && path[0] == '~' && path[1] == '/' {
		return "/home/user/" + path[2:]
	}
	if len(path) > 0 && path[0] == '/' {
		return path
	}
	return "/cwd/" + path
}
func verifStub_reflect_Value_Interface(v reflect.Value) any { return (*os.File)(nil) }
func verifStub_reflect_ValueOf(i any) reflect.Value {
	verifOS.lastVal = i
	return reflect.Value{}
}
func verifStub_reflect_Value_Set(v reflect.Value, x reflect.Value) { verifOS.setTo = verifOS.lastVal }

// ---- harnesses ----

func verifReset() {
	verifOS.handles, verifOS.events, verifOS.opened, verifOS.setTo, verifOS.lastVal = nil, nil, nil, nil, nil
}

func verifOutput() (*os.File, bool) {
	if verifrt.Bool("output-is-stdout") {
		return os.Stdout, true
	}
	return &os.File{}, false
}

func VerifC20_MakeISO() {
	verifrt.NativeUnsupported("os.File, fmt and the OS file system are replaced by engine-injected stubs")
	verifrt.ConcreteBuffers()
	verifReset()
	size := verifrt.Int64("file.size")
	verifrt.Assume(size >= 0)
	verifrt.Assume(size <= int64(verifrt.Bound("C20.maxfilesize", 4097, 3*2048+1)))
	verifOS.tree = &verifstub.Fs{L: &verifstub.Ledger{}, Entries: []*verifstub.Entry{
		{Path: "/src", File: &verifstub.File{Dir: true, Names: []string{"a.bin"}}},
		{Path: "/src/a.bin", File: &verifstub.File{Label: "a", Size: size}},
	}}
	out, isStdout := verifOutput()
	app := &makeISOApp{Directory: "/src", Target: out, PS3Mode: false}
	if verifrt.Bool("missing-directory") {
		app.Directory = "/nowhere"
	}
	err := app.Run()
	h := verifHandle(out)
	if app.Directory != "/src" {
		verifrt.Assert(err != nil && h.written == 0, "makeiso.error-exit-writes-nothing")
		return
	}
	verifrt.Assert(err == nil, "makeiso.succeeds")
	// exactly one complete copy of the image object: metadata + file sectors + pad area
	sectors := 22 + 2 + (size+2047)/2048 // 16 system + 3 descriptors + 1 blank + 4 path tables (-2: counted below) ...
	_ = sectors
	verifrt.Assert(h.written > 0 && h.written%2048 == 0 && h.written >= 24*2048+size, "makeiso.whole-image-written")
	verifrt.Assert(h.text == 0, "makeiso.no-text-in-the-output")
	if isStdout {
		for _, o := range verifOS.handles {
			if o.f == os.Stdout {
				verifrt.Assert(o.text == 0, "makeiso.stdout-carries-only-the-image")
			}
		}
	}
	verifrt.Assert(verifOS.tree.L.Opened == verifOS.tree.L.Closed, "makeiso.source-files-closed")

	// "exactly the image the server would serve", length half: a second image object of the same tree (what the
	// server builds for the same directory) has exactly the length that was written. (Byte-wise equality of the two
	// was tried and is out of reach here: 131072 positions, each a solver query, > 20 min.)
	ref, rerr := pfs.NewVirtualISO(verifOS.tree, "/src", false)
	verifrt.Assert(rerr == nil, "makeiso.reference-image")
	if rerr != nil {
		return
	}
	total, _ := ref.Seek(0, io.SeekEnd)
	verifrt.Assert(h.written == total, "makeiso.length-equals-served-image")
	if h.written != total {
		return
	}
	_ = ref.Close()
}

func verifEncImage() *verifstub.File {
	size := verifrt.Int64("image.size")
	verifrt.Assume(size >= 0x2000)
	verifrt.Assume(size <= int64(verifrt.Bound("C20.maximagesize", 0x3000, 0x5000)))
	verifrt.Assume(size%2048 == 0)
	return &verifstub.File{Label: "enc", Size: size, L: &verifstub.Ledger{}}
}

// AES stubs (same abstraction as pkg/fs harnesses, reduced: the decrypted bytes are not inspected here)
type verifNullBlock struct{}

func (verifNullBlock) BlockSize() int          { return 16 }
func (verifNullBlock) Encrypt(dst, src []byte) {}
func (verifNullBlock) Decrypt(dst, src []byte) {}

type verifNullCBC struct{}

func (verifNullCBC) BlockSize() int              { return 16 }
func (verifNullCBC) CryptBlocks(dst, src []byte) {}
func (verifNullCBC) SetIV(iv []byte)             {}

var verifKeyUsed []byte

func verifStub_aes_NewCipher(key []byte) (verifCipherBlock, error) { return verifNullBlock{}, nil }

type verifCipherBlock interface {
	BlockSize() int
	Encrypt(dst, src []byte)
	Decrypt(dst, src []byte)
}
type verifCipherMode interface {
	BlockSize() int
	CryptBlocks(dst, src []byte)
}

func verifStub_cipher_NewCBCDecrypter(b verifCipherBlock, iv []byte) verifCipherMode {
	return verifNullCBC{}
}

type verifRecordingCBC struct{ verifNullCBC }

func (verifRecordingCBC) CryptBlocks(dst, src []byte) { verifKeyUsed = append([]byte{}, src...) }
func verifStub_cipher_NewCBCEncrypter(b verifCipherBlock, iv []byte) verifCipherMode {
	return verifRecordingCBC{}
}

func VerifC20_Decrypt() {
	verifrt.NativeUnsupported("os.File, fmt and AES are replaced by engine-injected stubs")
	verifReset()
	verifKeyUsed = nil
	img := verifEncImage()
	// a valid two-region table so that the constructor accepts the image (region tables are C10's subject)
	for i, b := range []byte{0, 0, 0, 2, 0, 0, 0, 0, 0, 0, 0, 0, 0, 0, 0, 1, 0, 0, 0, 2, 0, 0, 0, 3} {
		verifrt.Assume(verifrt.ByteAt("enc", int64(i)) == b)
	}
	in := &os.File{}
	verifHandle(in).backing = img
	out, isStdout := verifOutput()
	var err error
	redump := verifrt.Bool("redump")
	if redump {
		keyFile := &os.File{}
		verifHandle(keyFile).backing = &verifstub.File{Data: []byte("00112233445566778899aabbccddeeff"), Size: 32}
		err = (&decryptRedumpCmd{Image: in, Key: keyFile, Output: out}).Run()
	} else {
		// 3k3y: encrypted watermark and embedded key required
		wm := []byte{0x44, 0x6E, 0x63, 0x72, 0x79, 0x70, 0x74, 0x65, 0x64, 0x20, 0x33, 0x4B, 0x20, 0x42, 0x4C, 0x44}
		enc := verifrt.Bool("watermark-encrypted")
		for i, b := range wm {
			if enc {
				verifrt.Assume(verifrt.ByteAt("enc", 0xF70+int64(i)) == b)
			} else if i == 0 {
				verifrt.Assume(verifrt.ByteAt("enc", 0xF70) == 0x45) // the 'already decrypted' watermark
			} else {
				verifrt.Assume(verifrt.ByteAt("enc", 0xF70+int64(i)) == b)
			}
		}
		err = (&decrypt3k3yCmd{Image: in, Output: out}).Run()
		if !enc {
			verifrt.Assert(err != nil && verifHandle(out).written == 0, "decrypt.not-encrypted-is-an-error")
			return
		}
	}
	h := verifHandle(out)
	verifrt.Assert(err == nil, "decrypt.succeeds")
	verifrt.Assert(h.written == img.Size, "decrypt.whole-plaintext-written-once")
	verifrt.Assert(h.text == 0, "decrypt.no-text-in-the-output")
	if isStdout {
		verifrt.Assert(verifHandle(os.Stdout).text == 0, "decrypt.stdout-carries-only-the-plaintext")
	}
	// key source: the key file (redump) or the embedded key (3k3y) went into the key derivation
	verifrt.Assert(len(verifKeyUsed) == 16, "decrypt.key-derived")
	if redump && len(verifKeyUsed) == 16 {
		verifrt.Assert(verifKeyUsed[0] == 0x00 && verifKeyUsed[1] == 0x11 && verifKeyUsed[15] == 0xff, "decrypt.redump-key-from-key-file")
	}
	if !redump && len(verifKeyUsed) == 16 {
		verifrt.Assert(verifKeyUsed[3] == verifrt.ByteAt("enc", 0xF83), "decrypt.3k3y-embedded-key")
	}
}

// the output-file mapper: '-' is stdout; otherwise an existing path is refused and a new one is created without truncation
func VerifC20_OutputMapper() {
	verifrt.NativeUnsupported("kong decoding, reflect, os.Stat and os.OpenFile are replaced by engine-injected stubs")
	verifReset()
	verifOS.popped = [4]string{"-", "out.iso", "/abs/out.iso", "~/out.iso"}[verifrt.Choice("argument", 4)]
	verifOS.exists = verifrt.Bool("path-exists")
	err := kongutil.VerifOutputFileMapper(&kong.DecodeContext{Scan: &kong.Scanner{}}, reflect.Value{})
	if verifOS.popped == "-" {
		verifrt.Assert(err == nil && verifOS.setTo == interface{}(os.Stdout) && len(verifOS.events) == 0, "mapper.dash-is-stdout")
		return
	}
	if verifOS.exists {
		verifrt.Assert(err != nil && verifOS.opened == nil && verifOS.setTo == nil, "mapper.existing-path-refused")
	} else {
		verifrt.Assert(err == nil && verifOS.opened != nil && verifOS.setTo == interface{}(verifOS.opened), "mapper.new-file-created")
	}
	// the path that is checked is the path that is opened
	want := verifStub_kong_ExpandPath(verifOS.popped)
	for _, e := range verifOS.events {
		verifrt.Assert(e == "stat:"+want || e == "open:"+want, "mapper.checks-the-path-it-opens")
	}
	verifrt.Assert(len(verifOS.events) >= 1 && verifOS.events[0] == "stat:"+want, "mapper.stat-first")
}

var _ = errors.New

// C20, byte half of "make-iso writes exactly the image the server would serve": trees with concrete file sizes
// (so that every index is concrete and bytes are constants or cells of the uninterpreted file contents): a file of
// whole sectors / one byte more / one byte less / empty, followed by further files in the root and in a
// subdirectory. Everything make-iso sent to its output is compared, position by position, with a second image of
// the same tree read the server's way (Seek + Read of one sector). The four date fields of the volume
// descriptors hold the construction time and are skipped.
func VerifC20_MakeISOBytes() {
	verifrt.NativeUnsupported("os.File, fmt and the OS file system are replaced by engine-injected stubs")
	verifrt.ConcreteBuffers()
	verifReset()
	first := []int64{4096, 2048, 2049, 2047, 0, 6144}[verifrt.Choice("first-file-size", verifrt.Bound("C20.bytes.sizes", 4, 6))]
	verifOS.tree = &verifstub.Fs{L: &verifstub.Ledger{}, Entries: []*verifstub.Entry{
		{Path: "/src", File: &verifstub.File{Dir: true, Names: []string{"a.bin", "b.bin", "sub"}}},
		{Path: "/src/a.bin", File: &verifstub.File{Label: "a", Size: first}},
		{Path: "/src/b.bin", File: &verifstub.File{Label: "b", Size: 5}},
		{Path: "/src/sub", File: &verifstub.File{Dir: true, Names: []string{"c.bin"}}},
		{Path: "/src/sub/c.bin", File: &verifstub.File{Label: "c", Size: 2050}},
	}}
	out := &os.File{}
	h := verifHandle(out)
	h.keep = true
	app := &makeISOApp{Directory: "/src", Target: out, PS3Mode: false}
	err := app.Run()
	verifrt.Assert(err == nil, "bytes.makeiso-succeeds")
	ref, rerr := pfs.NewVirtualISO(verifOS.tree, "/src", false)
	verifrt.Assert(rerr == nil, "bytes.reference-image")
	if err != nil || rerr != nil {
		return
	}
	var served []byte
	chunk := make([]byte, 2048)
	for off := int64(0); ; off += 2048 {
		if _, serr := ref.Seek(off, io.SeekStart); serr != nil {
			break
		}
		n, rderr := io.ReadFull(ref, chunk)
		served = append(served, chunk[:n]...)
		if rderr != nil {
			break
		}
	}
	verifrt.Assert(len(h.data) == len(served) && len(served) > 20*2048, "bytes.same-length")
	if len(h.data) != len(served) {
		return
	}
	diff := -1
	for j := range served {
		sec, in := j/2048, j%2048
		if (sec == 16 || sec == 17) && in >= 813 && in < 881 {
			continue
		}
		if h.data[j] != served[j] {
			diff = j
			break
		}
	}
	verifrt.Assert(diff < 0, "bytes.equal-to-served-image")
	_ = ref.Close()
}

//go:build verif

package kongutil

import (
	"reflect"

	"github.com/alecthomas/kong"
)

// VerifOutputFileMapper exposes the unexported mapper function to the C20 harness.
func VerifOutputFileMapper(dctx *kong.DecodeContext, target reflect.Value) error {
	return outputFileMapper(dctx, target)
}

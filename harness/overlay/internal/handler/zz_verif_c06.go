//go:build verif

package handler

// C06: directory listing, stat and dir-size report the (stub) tree truthfully.

import (
	iofs "io/fs"
	"syscall"

	"github.com/xakep666/ps3netsrv-go/internal/copier"
	"github.com/xakep666/ps3netsrv-go/internal/verifrt"
	"github.com/xakep666/ps3netsrv-go/internal/verifstub"
	"github.com/xakep666/ps3netsrv-go/pkg/fs"
	"github.com/xakep666/ps3netsrv-go/pkg/server"
)

type verifTree struct {
	w                      *verifWorld
	s1, s2, s3, s4         int64
	m1, m2, m3, mdir, mtop int64
	atop, ctop             int64
}

func verifSize(label string) int64 {
	v := verifrt.Int64(label)
	verifrt.Assume(v >= 0)
	verifrt.Assume(v < 0x1000)
	return v
}

// /d: f1 (file), ln (symlink to a file), sub (directory with f2), dangling (symlink to nothing); /top outside.
func verifNewTree(dots bool) *verifTree {
	t := &verifTree{}
	t.s1, t.s2, t.s3, t.s4 = verifSize("f1.size"), verifSize("ln.size"), verifSize("f2.size"), verifSize("top.size")
	t.m1, t.m2, t.m3, t.mdir, t.mtop = verifrt.Int64("f1.mtime"), verifrt.Int64("ln.mtime"), verifrt.Int64("f2.mtime"), verifrt.Int64("sub.mtime"), verifrt.Int64("top.mtime")
	t.atop, t.ctop = verifrt.Int64("top.atime"), verifrt.Int64("top.ctime")
	led := &verifstub.Ledger{}
	names := []string{"f1", "ln", "sub", "dangling"}
	if dots {
		names = []string{".", "f1", "..", "ln", "sub", "dangling"}
	}
	dir := &verifstub.File{Dir: true, Names: names, Infos: []iofs.FileInfo{
		&verifstub.Info{NameV: "f1", SizeV: t.s1, MTimeV: t.m1},
		&verifstub.Info{NameV: "ln", SizeV: 7, MTimeV: 1, ModeV: iofs.ModeSymlink},
		&verifstub.Info{NameV: "sub", SizeV: 4096, DirV: true, MTimeV: t.mdir},
		&verifstub.Info{NameV: "dangling", SizeV: 9, MTimeV: 2, ModeV: iofs.ModeSymlink},
	}}
	base := &verifstub.Fs{L: led, Entries: []*verifstub.Entry{
		{Path: "/d", File: dir},
		{Path: "/d/f1", File: &verifstub.File{Label: "f1", Size: t.s1, MTime: t.m1}},
		{Path: "/d/ln", File: &verifstub.File{Label: "ln", Size: t.s2, MTime: t.m2}},
		{Path: "/d/sub", File: &verifstub.File{Dir: true, Size: 4096, MTime: t.mdir, Names: []string{"f2"}}},
		{Path: "/d/sub/f2", File: &verifstub.File{Label: "f2", Size: t.s3, MTime: t.m3}},
		{Path: "/top", File: &verifstub.File{Label: "top", Size: t.s4, MTime: t.mtop,
			SysV: &syscall.Stat_t{Atim: syscall.Timespec{Sec: t.atop}, Ctim: syscall.Timespec{Sec: t.ctop}, Mtim: syscall.Timespec{Sec: t.mtop}}}},
	}}
	w := &verifWorld{led: led, base: base}
	w.h = &Handler{Fs: &fs.FS{Fs: base}, Copier: copier.NewPooledCopier(4)}
	w.srv = verifServer(w.h)
	w.conn = &verifstub.Conn{}
	w.ctx = server.VerifNewContext[State](w.conn)
	t.w = w
	return t
}

func (t *verifTree) request(req []byte) []byte {
	t.w.conn.Out = nil
	err := t.w.send(req)
	verifrt.Assert(err == nil, "request.continues")
	return t.w.conn.Out
}

func (t *verifTree) openDir(path string) int32 {
	out := t.request(verifPathCmd(0x122a, path))
	verifrt.Assert(len(out) == 4, "opendir.response")
	return int32(verifGet32(out))
}

type verifWantEntry struct {
	name  string
	size  int64
	mtime int64
	dir   bool
}

func (t *verifTree) wantEntries() []verifWantEntry {
	return []verifWantEntry{{"f1", t.s1, t.m1, false}, {"ln", t.s2, t.m2, false}, {"sub", 0, t.mdir, true}}
}

func VerifC06_OpenDir() {
	t := verifNewTree(false)
	path := [4]string{"/d", "/d/sub", "/top", "/gone"}[verifrt.Choice("path", 4)]
	code := t.openDir(path)
	verifrt.Assert((code == 0) == (path == "/d" || path == "/d/sub"), "opendir.success-iff-directory")
}

// entry-by-entry enumeration, both variants: every non-dangling entry once, in order, never '.' or '..', then the end marker
func VerifC06_Entries() {
	t := verifNewTree(true)
	v2 := verifrt.Bool("v2")
	verifrt.Assert(t.openDir("/d") == 0, "entries.opendir")
	op, hdr := uint16(0x122b), 11
	if v2 {
		op, hdr = 0x122f, 35
	}
	wants := t.wantEntries()
	seen := make([]bool, len(wants))
	for range wants {
		out := t.request(verifReadCmd(op, 0, 0))
		verifrt.Assert(len(out) >= hdr && int64(verifGet64(out)) != -1, "entries.length")
		if len(out) < hdr {
			return
		}
		// the order of the entries is the file system's: match by name, each exactly once
		name := string(out[hdr:])
		idx := -1
		for i, w := range wants {
			if !seen[i] && w.name == name {
				idx = i
			}
		}
		verifrt.Assert(idx >= 0, "entries.name")
		if idx < 0 {
			return
		}
		seen[idx] = true
		want := wants[idx]
		verifrt.Assert(int64(verifGet64(out)) == want.size, "entries.size")
		if v2 {
			verifrt.Assert(int64(verifGet64(out[8:])) == want.mtime && int64(verifGet64(out[16:])) == want.mtime && int64(verifGet64(out[24:])) == want.mtime, "entries.times")
		}
		verifrt.Assert(int(out[hdr-3])<<8|int(out[hdr-2]) == len(want.name) && (out[hdr-1] == 1) == want.dir && out[hdr-1] <= 1, "entries.namelen-and-kind")
	}
	for k := 0; k < 2; k++ {
		out := t.request(verifReadCmd(op, 0, 0))
		verifrt.Assert(len(out) == hdr && int64(verifGet64(out)) == -1, "entries.end-marker")
		verifrt.Assert(t.w.ctx.State.CwdHandle == nil && t.w.led.Opened == t.w.led.Closed, "entries.directory-released")
	}
}

// bulk listing
func VerifC06_ReadDir() {
	t := verifNewTree(false)
	verifrt.Assert(t.openDir("/d") == 0, "readdir.opendir")
	out := t.request(verifReadCmd(0x1232, 0, 0))
	want := t.wantEntries()
	verifrt.Assert(len(out) == 8+529*len(want), "readdir.length")
	if len(out) != 8+529*len(want) {
		return
	}
	verifrt.Assert(int(verifGet64(out)) == len(want), "readdir.count")
	seen := make([]bool, len(want))
	for i := range want {
		rec := out[8+529*i:]
		// order is the file system's: find the record's name among the expected entries
		idx := -1
		for k, e := range want {
			if seen[k] {
				continue
			}
			nameOK := true
			for c := 0; c < 512; c++ {
				ch := byte(0)
				if c < len(e.name) {
					ch = e.name[c]
				}
				nameOK = nameOK && rec[17+c] == ch
			}
			if nameOK {
				idx = k
			}
		}
		verifrt.Assert(idx >= 0, "readdir.name-field")
		if idx < 0 {
			return
		}
		seen[idx] = true
		e := want[idx]
		verifrt.Assert(int64(verifGet64(rec)) == e.size && int64(verifGet64(rec[8:])) == e.mtime && (rec[16] == 1) == e.dir && rec[16] <= 1, "readdir.fields")
	}
}

func VerifC06_NoDir() {
	t := verifNewTree(false)
	out := t.request(verifReadCmd(0x1232, 0, 0))
	verifrt.Assert(len(out) == 8 && verifGet64(out) == 0, "nodir.bulk-empty")
	out = t.request(verifReadCmd(0x122b, 0, 0))
	verifrt.Assert(len(out) == 11 && int64(verifGet64(out)) == -1, "nodir.entry-end")
}

func VerifC06_Stat() {
	t := verifNewTree(false)
	pi := verifrt.Choice("path", 5)
	path := [5]string{"/d/f1", "/d", "/top", "/gone", "/d/sub/f2"}[pi]
	out := t.request(verifPathCmd(0x1230, path))
	verifrt.Assert(len(out) == 33, "stat.length")
	if len(out) != 33 {
		return
	}
	size, mt, ct, at, dir := int64(verifGet64(out)), int64(verifGet64(out[8:])), int64(verifGet64(out[16:])), int64(verifGet64(out[24:])), out[32]
	switch pi {
	case 3:
		verifrt.Assert(size == -1, "stat.missing")
	case 1:
		verifrt.Assert(size == 0 && dir == 1, "stat.directory")
	default:
		ws := [5]int64{t.s1, 0, t.s4, 0, t.s3}[pi]
		wm := [5]int64{t.m1, 0, t.mtop, 0, t.m3}[pi]
		wc, wa := wm, wm
		if pi == 2 { // the file whose info carries separate access and change times
			wc, wa = t.ctop, t.atop
		}
		verifrt.Assert(size == ws && mt == wm && ct == wc && at == wa && dir == 0, "stat.file")
	}
}

func VerifC06_DirSize() {
	t := verifNewTree(false)
	pi := verifrt.Choice("path", 2)
	path := [2]string{"/d", "/d/sub"}[pi]
	out := t.request(verifPathCmd(0x1231, path))
	verifrt.Assert(len(out) == 8, "dirsize.length")
	if len(out) != 8 {
		return
	}
	want := t.s1 + t.s2 + t.s3
	if pi == 1 {
		want = t.s3
	}
	verifrt.Assert(int64(verifGet64(out)) == want, "dirsize.total")
}

// Re-opening a directory after a partial enumeration starts a fresh, complete enumeration.
func VerifC06_Reopen() {
	t := verifNewTree(false)
	verifrt.Assert(t.openDir("/d") == 0, "reopen.opendir")
	k := verifrt.Choice("partial", 3) // entries read before the directory is opened again
	for i := 0; i < k; i++ {
		_ = t.request(verifReadCmd(0x122b, 0, 0))
	}
	second := [2]string{"/d", "/d/sub"}[verifrt.Choice("second", 2)]
	verifrt.Assert(t.openDir(second) == 0, "reopen.second-opendir")
	var want []string
	if second == "/d" {
		want = []string{"f1", "ln", "sub"}
	} else {
		want = []string{"f2"}
	}
	got := make([]bool, len(want))
	for range want {
		out := t.request(verifReadCmd(0x122b, 0, 0))
		hit := false
		for i, name := range want {
			if !got[i] && len(out) == 11+len(name) && string(out[11:]) == name {
				got[i], hit = true, true
				break
			}
		}
		verifrt.Assert(hit, "reopen.entry")
	}
	out := t.request(verifReadCmd(0x122b, 0, 0))
	verifrt.Assert(len(out) == 11 && int64(verifGet64(out)) == -1, "reopen.end-marker")
	verifrt.Assert(t.w.led.Opened == t.w.led.Closed, "reopen.all-released")
}

// ---- a directory whose composition is chosen by the solver's case split ----------------------
// /w holds n entries (n = 0..max); each entry independently is a regular file, a directory (holding one
// file), a symbolic link to a regular file, or a dangling link. Names differ in length (1, 9 with a blank,
// 255, 17 with a dot). One connection then enumerates entry by entry (either variant), re-opens, lists in
// bulk and asks for the directory's size: each answer must describe exactly this tree.

type verifWideEntry struct {
	name  string
	kind  int // 0 file, 1 directory, 2 link to a file, 3 dangling link
	size  int64
	mtime int64
	inner int64 // size of the file inside a directory entry
}

func verifWideNames() []string {
	long := make([]byte, 255)
	for i := range long {
		long[i] = 'x'
	}
	return []string{"a", "sp ace.up", string(long), "GAME.with.dots.iso"}
}

func VerifC06_Wide() {
	names := verifWideNames()
	n := verifrt.Choice("entries", 1+verifrt.Bound("C06.wide.maxentries", 3, 4))
	led := &verifstub.Ledger{}
	dir := &verifstub.File{Dir: true, MTime: 5}
	base := &verifstub.Fs{L: led}
	var ents []verifWideEntry
	for i := 0; i < n; i++ {
		e := verifWideEntry{name: names[i], kind: verifrt.Choice("kind", 4)}
		e.size, e.mtime, e.inner = verifSize("w.size"), verifrt.Int64("w.mtime"), verifSize("w.inner")
		ents = append(ents, e)
		dir.Names = append(dir.Names, e.name)
		p := "/w/" + e.name
		switch e.kind {
		case 0:
			dir.Infos = append(dir.Infos, &verifstub.Info{NameV: e.name, SizeV: e.size, MTimeV: e.mtime})
			base.Entries = append(base.Entries, &verifstub.Entry{Path: p, File: &verifstub.File{Label: "w", Size: e.size, MTime: e.mtime}})
		case 1:
			dir.Infos = append(dir.Infos, &verifstub.Info{NameV: e.name, SizeV: 4096, DirV: true, MTimeV: e.mtime})
			base.Entries = append(base.Entries,
				&verifstub.Entry{Path: p, File: &verifstub.File{Dir: true, Size: 4096, MTime: e.mtime, Names: []string{"in"}}},
				&verifstub.Entry{Path: p + "/in", File: &verifstub.File{Label: "in", Size: e.inner, MTime: 3}})
		case 2: // what the listing sees is the link (its own size and time); Stat follows it
			dir.Infos = append(dir.Infos, &verifstub.Info{NameV: e.name, SizeV: 11, MTimeV: 1, ModeV: iofs.ModeSymlink})
			base.Entries = append(base.Entries, &verifstub.Entry{Path: p, File: &verifstub.File{Label: "w", Size: e.size, MTime: e.mtime}})
		case 3:
			dir.Infos = append(dir.Infos, &verifstub.Info{NameV: e.name, SizeV: 12, MTimeV: 2, ModeV: iofs.ModeSymlink})
		}
	}
	base.Entries = append(base.Entries, &verifstub.Entry{Path: "/w", File: dir})
	w := &verifWorld{led: led, base: base}
	w.h = &Handler{Fs: &fs.FS{Fs: base}, Copier: copier.NewPooledCopier(4)}
	w.srv = verifServer(w.h)
	w.conn = &verifstub.Conn{}
	w.ctx = server.VerifNewContext[State](w.conn)
	t := &verifTree{w: w}

	live := 0
	var total int64
	for _, e := range ents {
		if e.kind != 3 {
			live++
		}
		switch e.kind {
		case 0, 2:
			total += e.size
		case 1:
			total += e.inner
		}
	}
	wantSize := func(e verifWideEntry) int64 {
		if e.kind == 1 {
			return 0
		}
		return e.size
	}

	// 1. entry by entry
	v2 := verifrt.Bool("v2")
	op, hdr := uint16(0x122b), 11
	if v2 {
		op, hdr = 0x122f, 35
	}
	verifrt.Assert(t.openDir("/w") == 0, "wide.opendir")
	seen := make([]bool, len(ents))
	for k := 0; k < live; k++ {
		out := t.request(verifReadCmd(op, 0, 0))
		verifrt.Assert(len(out) >= hdr && int64(verifGet64(out)) != -1, "wide.entry.present")
		if len(out) < hdr {
			return
		}
		name := string(out[hdr:])
		idx := -1
		for i, e := range ents {
			if !seen[i] && e.kind != 3 && e.name == name {
				idx = i
			}
		}
		verifrt.Assert(idx >= 0, "wide.entry.name")
		if idx < 0 {
			return
		}
		seen[idx] = true
		e := ents[idx]
		verifrt.Assert(int64(verifGet64(out)) == wantSize(e), "wide.entry.size")
		if v2 {
			verifrt.Assert(int64(verifGet64(out[8:])) == e.mtime, "wide.entry.mtime")
		}
		verifrt.Assert(int(out[hdr-3])<<8|int(out[hdr-2]) == len(e.name) && (out[hdr-1] == 1) == (e.kind == 1) && out[hdr-1] <= 1, "wide.entry.namelen-and-kind")
	}
	out := t.request(verifReadCmd(op, 0, 0))
	verifrt.Assert(len(out) == hdr && int64(verifGet64(out)) == -1, "wide.entry.end-marker")

	// 2. bulk listing on the same connection
	verifrt.Assert(t.openDir("/w") == 0, "wide.reopen")
	out = t.request(verifReadCmd(0x1232, 0, 0))
	verifrt.Assert(len(out) == 8+529*live, "wide.bulk.length")
	if len(out) != 8+529*live {
		return
	}
	verifrt.Assert(int(verifGet64(out)) == live, "wide.bulk.count")
	seen = make([]bool, len(ents))
	for i := 0; i < live; i++ {
		rec := out[8+529*i:]
		idx := -1
		for k, e := range ents {
			if seen[k] || e.kind == 3 {
				continue
			}
			nameOK := true
			for c := 0; c < 512; c++ {
				ch := byte(0)
				if c < len(e.name) {
					ch = e.name[c]
				}
				nameOK = nameOK && rec[17+c] == ch
			}
			if nameOK {
				idx = k
			}
		}
		verifrt.Assert(idx >= 0, "wide.bulk.name-field")
		if idx < 0 {
			return
		}
		seen[idx] = true
		e := ents[idx]
		verifrt.Assert(int64(verifGet64(rec)) == wantSize(e) && int64(verifGet64(rec[8:])) == e.mtime && (rec[16] == 1) == (e.kind == 1) && rec[16] <= 1, "wide.bulk.fields")
	}

	// 3. directory size
	out = t.request(verifPathCmd(0x1231, "/w"))
	verifrt.Assert(len(out) == 8 && int64(verifGet64(out)) == total, "wide.dirsize")
}

// Both listing commands on ONE opened directory: k entries are fetched one by one, then the rest is listed in bulk.
// Every live entry is reported exactly once by the two together, and the enumeration is at its end afterwards.
func VerifC06_Interleave() {
	t := verifNewTree(false)
	verifrt.Assert(t.openDir("/d") == 0, "interleave.opendir")
	live := []string{"f1", "ln", "sub"}
	seen := make([]bool, len(live))
	mark := func(name string) bool {
		for i, n := range live {
			if n == name && !seen[i] {
				seen[i] = true
				return true
			}
		}
		return false
	}
	k := 1 + verifrt.Choice("single-reads", 2)
	v2 := verifrt.Bool("v2")
	op, hdr := uint16(0x122b), 11
	if v2 {
		op, hdr = 0x122f, 35
	}
	for i := 0; i < k; i++ {
		out := t.request(verifReadCmd(op, 0, 0))
		verifrt.Assert(len(out) > hdr && mark(string(out[hdr:])), "interleave.single-entry")
	}
	out := t.request(verifReadCmd(0x1232, 0, 0))
	rest := len(live) - k
	verifrt.Assert(len(out) == 8+529*rest && int(verifGet64(out)) == rest, "interleave.bulk-lists-the-rest")
	if len(out) != 8+529*rest {
		return
	}
	for i := 0; i < rest; i++ {
		rec := out[8+529*i:]
		n := 0
		for n < 512 && rec[17+n] != 0 {
			n++
		}
		verifrt.Assert(mark(string(rec[17:17+n])), "interleave.bulk-entry-new")
	}
	out = t.request(verifReadCmd(op, 0, 0))
	verifrt.Assert(len(out) == hdr && int64(verifGet64(out)) == -1, "interleave.end-marker-after-bulk")
}

//go:build verif

package handler

// C17: PSX CD sector reads return exactly the 2048 user bytes of each sector.

import (
	"io"
	"log/slog"

	"github.com/xakep666/ps3netsrv-go/internal/copier"
	"github.com/xakep666/ps3netsrv-go/internal/verifrt"
	"github.com/xakep666/ps3netsrv-go/internal/verifstub"
	"github.com/xakep666/ps3netsrv-go/pkg/server"
)

var verifSectorSizes = [7]int{2048, 2328, 2336, 2340, 2352, 2368, 2448}

func verifServer(h *Handler) *server.Server[State] {
	return &server.Server[State]{Handler: h, Logger: slog.Default()}
}

func verifPut32(b []byte, v uint32) {
	b[0], b[1], b[2], b[3] = byte(v>>24), byte(v>>16), byte(v>>8), byte(v)
}

// The wire command is decoded (layout of the protocol definition: u16 opcode, u16 pad, u32 start
// sector, u32 sector count), forwarded and answered with the user data of exactly those sectors.
func VerifC17_Read() {
	S := verifSectorSizes[verifrt.Choice("sectorsize", 7)]
	start := verifrt.Uint32("start")
	count := uint32(verifrt.Choice("count", 1+verifrt.Bound("C17.maxcount", 2, 3)))
	size := verifrt.Int64("size")
	verifrt.Assume(size >= 0)
	verifrt.Assume(size < 1<<45)
	cmd := make([]byte, 16)
	cmd[0], cmd[1] = 0x12, 0x26
	cmd[2], cmd[3] = verifrt.Byte("pad"), verifrt.Byte("pad")
	verifPut32(cmd[4:], start)
	verifPut32(cmd[8:], count)
	cmd[12], cmd[13], cmd[14], cmd[15] = verifrt.Byte("pad"), verifrt.Byte("pad"), verifrt.Byte("pad"), verifrt.Byte("pad")
	conn := &verifstub.Conn{In: cmd}
	file := &verifstub.File{Label: "cd", Path: "/psx.bin", Size: size, L: &verifstub.Ledger{}}
	bufSize := int64(1024 * (1 + verifrt.Choice("poolbuf", 2)))
	h := &Handler{Copier: copier.NewPooledCopier(bufSize)}
	ctx := server.VerifNewContext[State](conn)
	ctx.State.ROFile = file
	ctx.State.CDSectorSize = S

	err := verifServer(h).VerifStep(ctx)

	verifrt.Assert(conn.Pos == 16, "cd.consumed-command")
	// complete sectors available?
	last := 24 + (int64(start)+int64(count)-1)*int64(S) + 2048
	if count == 0 || last <= size {
		verifrt.Assert(err == nil, "cd.no-error")
		verifrt.Assert(len(conn.Out) == 2048*int(count), "cd.length")
	} else {
		verifrt.Assert(err != nil, "cd.error-when-crossing-eof")
		verifrt.Assert(len(conn.Out) < 2048*int(count), "cd.prefix-only")
	}
	j := verifrt.Int("j")
	verifrt.Assume(j >= 0)
	verifrt.Assume(j < len(conn.Out))
	k := int64(j / 2048)
	want := verifrt.ByteAt("cd", 24+(int64(start)+k)*int64(S)+int64(j%2048))
	verifrt.Assert(conn.Out[j] == want, "cd.byte")
}

// No file open, or no sector size known: the connection is ended without stray bytes.
func VerifC17_NoFile() {
	cmd := make([]byte, 16)
	cmd[0], cmd[1] = 0x12, 0x26
	verifPut32(cmd[4:], verifrt.Uint32("start"))
	verifPut32(cmd[8:], verifrt.Uint32("count"))
	conn := &verifstub.Conn{In: cmd}
	h := &Handler{Copier: copier.NewPooledCopier(2048)}
	ctx := server.VerifNewContext[State](conn)
	if verifrt.Bool("fileopen") {
		ctx.State.ROFile = &verifstub.File{Label: "cd", Size: 1 << 20, L: &verifstub.Ledger{}}
		ctx.State.CDSectorSize = 0
	}
	err := verifServer(h).VerifStep(ctx)
	verifrt.Assert(err != nil && len(conn.Out) == 0, "cd.nofile-ends-connection")
}

const verifMagic1 = "\x01CD001"
const verifMagic2 = "PLAYSTATION "

func verifHasSig(S int, kind int) bool {
	pos := int64(24 + 16*S)
	sig := verifMagic1
	if kind == 1 {
		pos += 8
		sig = verifMagic2
	}
	ok := true
	for i := 0; i < len(sig); i++ {
		ok = ok && verifrt.ByteAt("cd", pos+int64(i)) == sig[i]
	}
	return ok
}

// verifExpectedSectorSize is the documented detection result: the smallest candidate size whose
// 16th sector carries one of the two signatures; 0 if there is none.
func verifExpectedSectorSize() int {
	for _, S := range verifSectorSizes {
		if verifHasSig(S, 0) || verifHasSig(S, 1) {
			return S
		}
	}
	return 0
}

func VerifC17_Detect() {
	f := &verifstub.File{Label: "cd", Size: 4 << 20, L: &verifstub.Ledger{}}
	// constrain the image so that the decision is made by one chosen candidate (keeps the case split small)
	target := verifrt.Choice("target", 8)
	for i, S := range verifSectorSizes {
		if i < target {
			verifrt.Assume(!verifHasSig(S, 0))
			verifrt.Assume(!verifHasSig(S, 1))
		}
	}
	if target < 7 {
		verifrt.Assume(verifHasSig(verifSectorSizes[target], verifrt.Choice("kind", 2)))
	}
	got, err := determineSectorSize(f)
	verifrt.Assert(err == nil, "detect.no-error")
	if target < 7 {
		verifrt.Assert(got == verifSectorSizes[target], "detect.size")
	} else {
		verifrt.Assert(got <= 0, "detect.none")
	}
}

// Opening sets the sector size: detected inside the 2 MiB..848 MiB window, 2352 otherwise,
// whatever the previous image was; CLOSEFILE forgets it.
func VerifC17_Open() {
	size := verifrt.Int64("size")
	verifrt.Assume(size >= 0)
	verifrt.Assume(size < 1<<40)
	led := &verifstub.Ledger{}
	img := &verifstub.File{Label: "cd", Size: size}
	fsys := &verifstub.Fs{L: led, Entries: []*verifstub.Entry{{Path: "/psx.bin", File: img}}}
	h := &Handler{Fs: fsys, Copier: copier.NewPooledCopier(2048)}
	conn := &verifstub.Conn{}
	ctx := server.VerifNewContext[State](conn)
	// arbitrary previous state
	if verifrt.Bool("prevopen") {
		ctx.State.ROFile = &verifstub.File{Label: "old", Size: 100, L: led}
		led.Opened++
	}
	ctx.State.CDSectorSize = verifrt.Int("prevsectorsize")
	// which candidate carries a signature (if any)
	target := verifrt.Choice("target", 3)
	cand := [3]int{2448, 2048, 0}[target]
	for _, S := range verifSectorSizes {
		if S != cand {
			verifrt.Assume(!verifHasSig(S, 0))
			verifrt.Assume(!verifHasSig(S, 1))
		}
	}
	if cand != 0 {
		verifrt.Assume(verifHasSig(cand, verifrt.Choice("kind", 2)))
	}

	fi, err := h.HandleOpenFile(ctx, "/psx.bin")

	verifrt.Assert(err == nil && fi != nil && fi.Size() == size, "open.info")
	want := 2352
	if size >= 0x200000 && size <= 0x35000000 && cand != 0 {
		want = cand
	}
	verifrt.Assert(ctx.State.CDSectorSize == want, "open.sector-size")
	verifrt.Assert(led.Opened == led.Closed+1, "open.previous-closed")
	h.HandleCloseFile(ctx)
	verifrt.Assert(ctx.State.ROFile == nil && ctx.State.CDSectorSize == 0 && led.Opened == led.Closed, "close.clears")
}

var _ = io.EOF

func verifCDCmd(start, count uint32) []byte {
	cmd := make([]byte, 16)
	cmd[0], cmd[1] = 0x12, 0x26
	verifPut32(cmd[4:], start)
	verifPut32(cmd[8:], count)
	return cmd
}

// A session on one open image: sector read, optionally another kind of read that moves the file
// position, sector read again. Every sector read is answered from the sectors it names, whatever
// the connection did before (the state is built by the real open, not by the harness).
func VerifC17_Sequence() {
	size := verifrt.Int64("size")
	verifrt.Assume(size >= 0x200000)
	verifrt.Assume(size <= 0x35000000)
	cand := [2]int{2048, 2448}[verifrt.Choice("cand", 2)]
	for _, S := range verifSectorSizes {
		if S != cand {
			verifrt.Assume(!verifHasSig(S, 0))
			verifrt.Assume(!verifHasSig(S, 1))
		}
	}
	verifrt.Assume(verifHasSig(cand, 0))
	led := &verifstub.Ledger{}
	img := &verifstub.File{Label: "cd", Size: size}
	fsys := &verifstub.Fs{L: led, Entries: []*verifstub.Entry{{Path: "/psx.bin", File: img}}}
	h := &Handler{Fs: fsys, Copier: copier.NewPooledCopier(2048)}
	srv := verifServer(h)
	conn := &verifstub.Conn{}
	ctx := server.VerifNewContext[State](conn)
	step := func(req []byte) error {
		conn.In = append(conn.In, req...)
		conn.Out = nil
		return srv.VerifStep(ctx)
	}
	verifrt.Assert(step(verifPathCmd(0x1224, "/psx.bin")) == nil && ctx.State.CDSectorSize == cand, "seq.open")
	S := int64(cand)
	inRange := func(s uint32) bool { return 24+int64(s)*S+2048 <= size }
	s1 := verifrt.Uint32("start1")
	verifrt.Assume(inRange(s1))
	verifrt.Assert(step(verifCDCmd(s1, 1)) == nil && len(conn.Out) == 2048, "seq.first-read")
	between := verifrt.Choice("between", 4)
	switch between {
	case 1, 2:
		off := verifrt.Uint64("mid.off")
		verifrt.Assume(off < 1<<40)
		op := uint16(0x1225)
		if between == 2 {
			op = 0x1227
		}
		_ = step(verifReadCmd(op, 2, off))
		if ctx.State.ROFile == nil {
			return
		}
		if op == 0x1225 && int64(off)+2 > size {
			return // unsatisfiable critical read: the connection has ended
		}
	case 3:
		s := verifrt.Uint32("mid.start")
		verifrt.Assume(inRange(s))
		verifrt.Assert(step(verifCDCmd(s, 1)) == nil, "seq.middle-sector-read")
	}
	s2 := verifrt.Uint32("start2")
	verifrt.Assume(inRange(s2))
	err := step(verifCDCmd(s2, 1))
	verifrt.Assert(err == nil && len(conn.Out) == 2048, "seq.second-read")
	if len(conn.Out) == 2048 {
		j := verifrt.Int("j")
		verifrt.Assume(j >= 0)
		verifrt.Assume(j < 2048)
		verifrt.Assert(conn.Out[j] == verifrt.ByteAt("cd", 24+int64(s2)*S+int64(j)), "seq.second-read-bytes")
	}
}

//go:build verif

package handler

// C01: no request path reaches outside the served root. The wiring of cmd/ps3netsrv-go/server.go
// (fs.FS over afero.BasePathFs over the OS file system) is reproduced with a stub in place of the
// OS file system whose every method first asserts that the path it is given lies inside the root.

import (
	"os"
	"strings"

	"github.com/spf13/afero"

	"github.com/xakep666/ps3netsrv-go/internal/copier"
	"github.com/xakep666/ps3netsrv-go/internal/verifrt"
	"github.com/xakep666/ps3netsrv-go/internal/verifstub"
	"github.com/xakep666/ps3netsrv-go/pkg/fs"
	"github.com/xakep666/ps3netsrv-go/pkg/server"
)

// verifInside: p is the clean root itself or lies below it.
func verifInside(cleanRoot, p string) bool {
	if cleanRoot == "/" {
		return len(p) > 0 && p[0] == '/' && !verifHasDotDot(p)
	}
	if p == cleanRoot {
		return true
	}
	return strings.HasPrefix(p, cleanRoot+"/") && !verifHasDotDot(p)
}

// verifHasDotDot: some path element is "..".
func verifHasDotDot(p string) bool {
	n := len(p)
	for i := 0; i+1 < n; i++ {
		if p[i] == '.' && p[i+1] == '.' && (i == 0 || p[i-1] == '/') && (i+2 == n || p[i+2] == '/') {
			return true
		}
	}
	return false
}

var verifRoots = [4]string{"/r", "/srv/root/", "/srv//root/.", "/"}
var verifCleanRoots = [4]string{"/r", "/srv/root", "/srv/root", "/"}

var verifPathOps = [8]uint16{0x1224, 0x1230, 0x122a, 0x1228, 0x122c, 0x122d, 0x122e, 0x1231}

func verifConfinedServer(root, cleanRoot string) (*server.Server[State], *verifstub.Fs) {
	base := &verifstub.Fs{L: &verifstub.Ledger{}}
	base.Guard = func(op, path string) {
		verifrt.Assert(verifInside(cleanRoot, path), "confined."+op)
	}
	// what exists is decided once per run: nothing / every path is a small plain file /
	// every path is a directory holding one plain file "x"
	world := verifrt.Choice("world", 3)
	base.Missing = func(op, path string) (*verifstub.File, error) {
		switch {
		case world == 0:
			return nil, os.ErrNotExist
		case world == 1 || strings.HasSuffix(path, "/x"):
			return &verifstub.File{Data: []byte("0123456789abcdef0123456789abcdef"), Size: 32}, nil
		}
		return &verifstub.File{Dir: true, Names: []string{"x"}}, nil
	}
	h := &Handler{Fs: &fs.FS{Fs: afero.NewBasePathFs(base, root)}, Copier: copier.NewPooledCopier(4), AllowWrite: true}
	return verifServer(h), base
}

// every path-carrying opcode, any path bytes
func VerifC01_AnyPath() {
	ri := verifrt.Choice("root", verifrt.Bound("C01.roots", 2, 4))
	srv, base := verifConfinedServer(verifRoots[ri], verifCleanRoots[ri])
	op := verifPathOps[verifrt.Choice("opcode", 8)]
	n := verifrt.Choice("pathlen", 1+verifrt.Bound("C01.maxlen", 6, 7))
	p := verifrt.Bytes("path", n)
	conn := &verifstub.Conn{In: verifPathCmd(op, string(p))}
	ctx := server.VerifNewContext[State](conn)
	_ = srv.VerifStep(ctx)
	verifrt.Reachable("anypath.request-handled")
	_ = base
}

// the virtual-image prefixes and the key lookup of encrypted images: fixed prefix, symbolic tail
func VerifC01_Prefixed() {
	ri := verifrt.Choice("root", 2)
	srv, _ := verifConfinedServer(verifRoots[ri], verifCleanRoots[ri])
	prefix := [4]string{"/***DVD***/", "/***PS3***/", "/PS3ISO/", "/***DVD***/../"}[verifrt.Choice("prefix", 4)]
	n := verifrt.Choice("taillen", 1+verifrt.Bound("C01.maxtail", 2, 4))
	tb := make([]byte, n)
	if prefix == "/PS3ISO/" {
		// key lookup paths: any ASCII bytes
		sym := verifrt.Bytes("tail", n)
		for i := range sym {
			verifrt.Assume(sym[i] < 0x80)
		}
		tb = sym
	} else {
		// virtual-image directories: every string over a small alphabet (the directory name is mapped rune-wise
		// to identifiers, which costs one fork per symbolic character and alphabet letter)
		for i := range tb {
			tb[i] = [5]byte{'/', '.', 'a', 'Z', 0}[verifrt.Choice("tailbyte", 5)]
		}
	}
	tail := string(tb)
	suffix := [2]string{"", ".iso"}[verifrt.Choice("suffix", 2)]
	conn := &verifstub.Conn{In: verifPathCmd(0x1224, prefix+tail+suffix)}
	ctx := server.VerifNewContext[State](conn)
	_ = srv.VerifStep(ctx)
	verifrt.Reachable("prefixed.request-handled")
}

// the known dangerous shapes, concretely (sibling directory whose name starts with the root's name)
func VerifC01_Siblings() {
	srv, _ := verifConfinedServer("/srv/root", "/srv/root")
	op := verifPathOps[verifrt.Choice("opcode", 8)]
	path := [8]string{"/../root-other/x", "../root2", "/a/../../rootX/y", "/***DVD***/../root2", "..\x00/root2", "/PS3ISO/../../root2/g.iso", "/..\\root2\\x", "/***PS3***/..\\root2"}[verifrt.Choice("shape", 8)]
	conn := &verifstub.Conn{In: verifPathCmd(op, path)}
	ctx := server.VerifNewContext[State](conn)
	_ = srv.VerifStep(ctx)
	verifrt.Reachable("siblings.request-handled")
}

// virtual-image prefixes that are not followed by a separator: "/***DVD***../x" is an ordinary path
// below the root, not an image of "../x"
func VerifC01_BarePrefix() {
	srv, _ := verifConfinedServer("/r", "/r")
	prefix := [2]string{"/***DVD***", "/***PS3***"}[verifrt.Choice("prefix", 2)]
	n := 1 + verifrt.Choice("taillen", verifrt.Bound("C01.baretail", 5, 6))
	tb := make([]byte, n)
	for i := range tb {
		tb[i] = [4]byte{'.', '/', 'r', '2'}[verifrt.Choice("tailbyte", 4)]
	}
	op := [3]uint16{0x1224, 0x1230, 0x122a}[verifrt.Choice("opcode", 3)]
	conn := &verifstub.Conn{In: verifPathCmd(op, prefix+string(tb))}
	ctx := server.VerifNewContext[State](conn)
	_ = srv.VerifStep(ctx)
	verifrt.Reachable("bareprefix.request-handled")
}

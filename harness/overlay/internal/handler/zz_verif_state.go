//go:build verif

package handler

// One-step transitions of the real handler from an arbitrary connection state:
// C03 (state machine), C05 (write gating), C13 (handles are released).

import (
	"os"

	"github.com/spf13/afero"

	"github.com/xakep666/ps3netsrv-go/internal/copier"
	"github.com/xakep666/ps3netsrv-go/internal/verifrt"
	"github.com/xakep666/ps3netsrv-go/internal/verifstub"
	"github.com/xakep666/ps3netsrv-go/pkg/fs"
	"github.com/xakep666/ps3netsrv-go/pkg/server"
)

type verifWorld struct {
	led   *verifstub.Ledger
	base  *verifstub.Fs
	h     *Handler
	srv   *server.Server[State]
	conn  *verifstub.Conn
	ctx   *Context
	oldRO *verifstub.File
	oldWO *verifstub.File
	oldCw *verifstub.File
}

func verifHandle(led *verifstub.Ledger, label string, dir bool) *verifstub.File {
	led.Opened++
	return &verifstub.File{Label: label, Path: "/old/" + label, Size: 5, Dir: dir, L: led}
}

// verifNewWorld: a tree /d (directory: f1, sub/f2), /top (file), /gone (missing); arbitrary open handles.
func verifNewWorld(faults bool) *verifWorld { return verifNewWorldOpts(faults, true) }

func verifNewWorldOpts(faults bool, withState bool) *verifWorld {
	w := &verifWorld{led: &verifstub.Ledger{}}
	s1, s2, s3 := verifrt.Int64("f1.size"), verifrt.Int64("f2.size"), verifrt.Int64("top.size")
	verifrt.Assume(s1 >= 0)
	verifrt.Assume(s1 < 0x1000) // below the 3k3y watermark area: plain files
	verifrt.Assume(s2 >= 0)
	verifrt.Assume(s2 < 0x1000) // below the 3k3y watermark area: plain files
	verifrt.Assume(s3 >= 0)
	verifrt.Assume(s3 < 0x1000) // below the 3k3y watermark area: plain files
	w.base = &verifstub.Fs{L: w.led, Faults: faults, Entries: []*verifstub.Entry{
		{Path: "/d", File: &verifstub.File{Dir: true, Names: []string{"f1", "sub"}, Faults: faults}},
		{Path: "/d/f1", File: &verifstub.File{Label: "f1", Size: s1, Faults: faults}},
		{Path: "/d/sub", File: &verifstub.File{Dir: true, Names: []string{"f2"}, Faults: faults}},
		{Path: "/d/sub/f2", File: &verifstub.File{Label: "f2", Size: s2, Faults: faults}},
		{Path: "/top", File: &verifstub.File{Label: "top", Size: s3, Faults: faults}},
	}}
	w.h = &Handler{Fs: &fs.FS{Fs: w.base}, Copier: copier.NewPooledCopier(int64(3 + verifrt.Choice("poolbuf", 2))), AllowWrite: verifrt.Bool("allowwrite")}
	w.srv = verifServer(w.h)
	w.conn = &verifstub.Conn{}
	w.ctx = server.VerifNewContext[State](w.conn)
	if !withState {
		return w
	}
	if verifrt.Bool("state.ro") {
		w.oldRO = verifHandle(w.led, "oldro", false)
		w.ctx.State.ROFile = w.oldRO
		w.ctx.State.CDSectorSize = 2352
	}
	if verifrt.Bool("state.wo") {
		w.oldWO = verifHandle(w.led, "oldwo", false)
		w.ctx.State.WOFile = w.oldWO
	}
	if verifrt.Bool("state.cwd") {
		w.oldCw = verifHandle(w.led, "oldcwd", true)
		w.oldCw.Names = []string{"x"}
		w.ctx.State.CwdHandle = w.oldCw
	}
	return w
}

// live counts the stub handles reachable from the state; ok is false when the read file is a generated
// image (it owns lazily opened member files that only its Close releases - see close-releases-all).
func (w *verifWorld) live() (n int, ok bool) {
	ok = true
	for _, h := range []afero.File{w.ctx.State.ROFile, w.ctx.State.WOFile, w.ctx.State.CwdHandle} {
		if h == nil {
			continue
		}
		if _, stub := h.(*verifstub.File); stub {
			n++
		} else {
			ok = false
		}
	}
	return n, ok
}

// noLeak: every handle that was opened is either closed or still reachable from the state.
func (w *verifWorld) noLeak(label string) {
	if n, ok := w.live(); ok {
		verifrt.Assert(w.led.Opened-w.led.Closed == n, label+".no-leaked-handle")
	}
}

func (w *verifWorld) send(req []byte) error {
	w.conn.In = append(w.conn.In, req...)
	return w.srv.VerifStep(w.ctx)
}

func verifTarget() string {
	return [4]string{"/top", "/d", "/gone", "/d/f1"}[verifrt.Choice("target", 4)]
}

// ---- C03: open-file / close-file / open-dir transitions ----

func VerifC03_StateOpenFile() {
	w := verifNewWorld(false)
	path := verifTarget()
	err := w.send(verifPathCmd(0x1224, path))
	verifrt.Assert(err == nil && len(w.conn.Out) == 16, "openfile.one-response")
	exists := path != "/gone"
	answeredSize := int64(verifGet64(w.conn.Out))
	if exists {
		verifrt.Assert(w.ctx.State.ROFile != nil && answeredSize >= 0, "openfile.success-sets-handle")
	} else {
		// the previous file is closed by every open request, so after a failed open no file is open
		verifrt.Assert(w.ctx.State.ROFile == nil && answeredSize == -1, "openfile.failure-leaves-no-file")
	}
	if w.oldRO != nil {
		verifrt.Assert(w.oldRO.Closes == 1, "openfile.previous-closed-once")
	}
	w.noLeak("openfile")
	// a read that follows is answered from the new state
	w.conn.Out = nil
	rerr := w.send(verifReadCmd(0x1225, 0, 0))
	verifrt.Assert((rerr == nil) == exists, "openfile.then-read-uses-new-state")
}

func VerifC03_StateCloseFile() {
	w := verifNewWorld(false)
	err := w.send(verifPathCmd(0x1224, "/any/dir/CLOSEFILE"))
	verifrt.Assert(err == nil && len(w.conn.Out) == 16 && verifGet64(w.conn.Out) == 0 && verifGet64(w.conn.Out[8:]) == 0, "closefile.response")
	verifrt.Assert(w.ctx.State.ROFile == nil && w.ctx.State.CDSectorSize == 0, "closefile.no-file-open")
	if w.oldRO != nil {
		verifrt.Assert(w.oldRO.Closes == 1, "closefile.closed-once")
	}
	w.noLeak("closefile")
}

func VerifC03_StateOpenDir() {
	w := verifNewWorld(false)
	path := verifTarget()
	err := w.send(verifPathCmd(0x122a, path))
	verifrt.Assert(err == nil && len(w.conn.Out) == 4, "opendir.one-response")
	code := int32(verifGet32(w.conn.Out))
	verifrt.Assert((code == 0) == (path == "/d"), "opendir.success-iff-directory")
	if code == 0 {
		verifrt.Assert(w.ctx.State.CwdHandle != nil && w.ctx.State.CwdHandle.Name() == path, "opendir.handle-is-new-directory")
		if w.oldCw != nil {
			verifrt.Assert(w.oldCw.Closes == 1, "opendir.previous-closed")
		}
	}
	w.noLeak("opendir")
}

// ---- C05: write gating ----

var verifMutating = [5]uint16{0x1228, 0x1229, 0x122c, 0x122d, 0x122e}

func VerifC05_ReadOnly() {
	w := verifNewWorld(false)
	verifrt.Assume(!w.h.AllowWrite)
	opi := verifrt.Choice("opcode", 15)
	op := [15]uint16{0x1224, 0x1225, 0x1226, 0x1227, 0x1228, 0x1229, 0x122a, 0x122b, 0x122c, 0x122d, 0x122e, 0x122f, 0x1230, 0x1231, 0x1232}[opi]
	path := [5]string{"/top", "/d", "/gone", "/***DVD***/d", "/***PS3***/d"}[verifrt.Choice("path", 5)]
	var req []byte
	switch op {
	case 0x1224, 0x1228, 0x122a, 0x122c, 0x122d, 0x122e, 0x1230, 0x1231:
		req = verifPathCmd(op, path)
	case 0x1229:
		req = make([]byte, 16)
		req[0], req[1] = 0x12, 0x29
		p := verifrt.Bytes("payload", 3)
		verifPut32(req[4:], 3)
		req = append(req, p...)
	default:
		req = verifReadCmd(op, 2, 0)
	}
	_ = w.send(req)
	verifrt.Assert(w.led.Mutations() == 0, "readonly.nothing-changed")
	if w.oldWO != nil {
		verifrt.Assert(len(w.oldWO.Written) == 0, "readonly.nothing-written")
	}
	for _, m := range verifMutating {
		if op == m {
			verifrt.Assert(len(w.conn.Out) == 4 && int32(verifGet32(w.conn.Out)) == -1, "readonly.refused-with-failure-code")
			verifrt.Assert(w.conn.Pos == len(w.conn.In), "readonly.request-consumed")
		}
	}
}

func VerifC05_Create() {
	w := verifNewWorld(false)
	verifrt.Assume(w.h.AllowWrite)
	path := [5]string{"/top", "/gone", "/d", "/***DVD***/d/x", "/***PS3***/d"}[verifrt.Choice("path", 5)]
	err := w.send(verifPathCmd(0x1228, path))
	verifrt.Assert(err == nil && len(w.conn.Out) == 4, "create.one-response")
	code := int32(verifGet32(w.conn.Out))
	// the previous write file is always closed by a create request
	if w.oldWO != nil {
		verifrt.Assert(w.oldWO.Closes == 1 && w.ctx.State.WOFile != w.oldWO, "create.previous-closed")
	}
	switch path {
	case "/top", "/gone":
		verifrt.Assert(code == 0 && w.ctx.State.WOFile != nil, "create.succeeds-for-new-and-existing")
		n := 0
		for _, e := range w.led.Events {
			if e.Op == "openfile" {
				n++
				verifrt.Assert(e.Path == path && e.Flag == os.O_CREATE|os.O_TRUNC|os.O_WRONLY, "create.open-flags")
			}
		}
		verifrt.Assert(n == 1, "create.exactly-one-open")
	case "/d":
		verifrt.Assert(w.ctx.State.WOFile == nil && w.led.Mutations() == 0, "create.directory-just-closes") // the result code for a directory target is not fixed by the property
	default:
		verifrt.Assert(code == -1 && w.ctx.State.WOFile == nil && w.led.Mutations() == 0, "create.virtual-image-refused")
	}
	w.noLeak("create")
}

func VerifC05_Write() {
	w := verifNewWorld(false)
	verifrt.Assume(w.h.AllowWrite)
	n := verifrt.Choice("payloadlen", 1+verifrt.Bound("C05.maxpayload", 7, 12))
	payload := verifrt.Bytes("payload", n)
	req := make([]byte, 16)
	req[0], req[1] = 0x12, 0x29
	verifPut32(req[4:], uint32(n))
	w.conn.ShortBudget = 1
	err := w.send(append(req, payload...))
	verifrt.Assert(err == nil && len(w.conn.Out) == 4 && w.conn.Pos == len(w.conn.In), "write.one-response-and-consumed")
	code := int32(verifGet32(w.conn.Out))
	if w.oldWO == nil {
		verifrt.Assert(code == -1 && w.led.Mutations() == 0, "write.without-open-file-fails")
		return
	}
	verifrt.Assert(int(code) == n, "write.reports-byte-count")
	verifrt.Assert(len(w.oldWO.Written) == n, "write.stored-length")
	if len(w.oldWO.Written) == n {
		same := true
		for i := 0; i < n; i++ {
			same = same && w.oldWO.Written[i] == payload[i]
		}
		verifrt.Assert(same, "write.stored-bytes")
	}
}

func VerifC05_Remove() {
	w := verifNewWorld(false)
	verifrt.Assume(w.h.AllowWrite)
	op := [3]uint16{0x122c, 0x122d, 0x122e}[verifrt.Choice("op", 3)]
	path := verifTarget()
	err := w.send(verifPathCmd(op, path))
	verifrt.Assert(err == nil && len(w.conn.Out) == 4, "remove.one-response")
	code := int32(verifGet32(w.conn.Out))
	wantOp := "remove"
	if op == 0x122d {
		wantOp = "mkdir"
	}
	n := 0
	for _, e := range w.led.Events {
		if e.Op == "remove" || e.Op == "mkdir" || e.Op == "openfile" || e.Op == "rename" {
			n++
			verifrt.Assert(e.Op == wantOp && e.Path == path, "remove.named-effect-only")
		}
	}
	verifrt.Assert(n == 1, "remove.exactly-one-effect")
	// the answer is the outcome of the file system operation
	verifrt.Assert(code == 0 || code == -1, "remove.code")
	verifrt.Assert((code == 0) == w.base.LastResultOK, "remove.truthful")
}

// ---- C13: whatever happens (faults included), handles are not leaked and Close releases everything ----

func VerifC13_Step() {
	w := verifNewWorld(true)
	opi := verifrt.Choice("opcode", 9)
	op := [9]uint16{0x1224, 0x122a, 0x122b, 0x122f, 0x1232, 0x1228, 0x1230, 0x1231, 0x1227}[opi]
	path := [4]string{"/top", "/d", "/gone", "/***DVD***/d"}[verifrt.Choice("path", 4)]
	var req []byte
	switch op {
	case 0x1224, 0x1228, 0x122a, 0x1230, 0x1231:
		req = verifPathCmd(op, path)
	default:
		req = verifReadCmd(op, 2, 0)
	}
	_ = w.send(req)
	w.noLeak("step")
	cerr := w.ctx.Close()
	_ = cerr
	verifrt.Assert(w.led.Opened == w.led.Closed, "step.close-releases-all")
	verifrt.Assert(w.ctx.State.ROFile == nil && w.ctx.State.WOFile == nil && w.ctx.State.CwdHandle == nil, "step.close-clears-state")
}

// serveConn closes the state and the connection however the session ends.
func VerifC13_Session() {
	w := verifNewWorldOpts(verifrt.Bool("faults"), false)
	first := [3]uint16{0x1224, 0x122a, 0x1228}[verifrt.Choice("first", 3)]
	in := verifPathCmd(first, verifTarget())
	second := verifrt.Choice("second", 4)
	switch second {
	case 0:
		in = append(in, verifReadCmd(0x1225, 4, 1<<40)...) // unsatisfiable critical read: ends the session
	case 1:
		in = append(in, verifReadCmd(0x122b, 0, 0)...)
	case 2:
		in = append(in, 0x55, 0x55) // garbage / truncated command
	}
	conn := &verifstub.Conn{In: in, EndErr: verifrt.Bool("reset"), WriteFaults: verifrt.Bool("writefaults")}
	srv := verifServer(w.h)
	srv.VerifServeConn(conn)
	verifrt.Assert(conn.Closes >= 1, "session.connection-closed")
	verifrt.Assert(w.led.Opened == w.led.Closed, "session.all-handles-closed")
}

func verifWriteCmd(payload []byte) []byte {
	req := make([]byte, 16)
	req[0], req[1] = 0x12, 0x29
	verifPut32(req[4:], uint32(len(payload)))
	return append(req, payload...)
}

// A session of uploads on one connection, starting from the state the real code builds: create A,
// write, then create again (the same path or another one) or not, write. What ends up stored under
// the path created last is exactly what was written after that create; and no handle is lost. (How the
// code gets an empty file - a new create+truncate open, or truncating and rewinding a kept handle - is its choice.)
func VerifC05_Sequence() {
	w := verifNewWorldOpts(false, false)
	verifrt.Assume(w.h.AllowWrite)
	pathA := [2]string{"/top", "/gone"}[verifrt.Choice("pathA", 2)]
	step := func(req []byte) error {
		w.conn.Out = nil
		return w.send(req)
	}
	verifrt.Assert(step(verifPathCmd(0x1228, pathA)) == nil && int32(verifGet32(w.conn.Out)) == 0, "sequence.create-a")
	n1 := verifrt.Choice("len1", 3)
	p1 := verifrt.Bytes("payload1", n1)
	verifrt.Assert(step(verifWriteCmd(p1)) == nil && int(int32(verifGet32(w.conn.Out))) == n1, "sequence.write-1")
	second := verifrt.Choice("second", 3) // 0: keep writing, 1: create the same path again, 2: create another path
	pathB := pathA
	if second == 2 {
		pathB = "/d/new"
	}
	if second != 0 {
		verifrt.Assert(step(verifPathCmd(0x1228, pathB)) == nil && int32(verifGet32(w.conn.Out)) == 0, "sequence.create-b")
	}
	n2 := 1 + verifrt.Choice("len2", 2)
	p2 := verifrt.Bytes("payload2", n2)
	verifrt.Assert(step(verifWriteCmd(p2)) == nil && int(int32(verifGet32(w.conn.Out))) == n2, "sequence.write-2")

	h := w.base.LastHandle(pathB)
	verifrt.Assert(h != nil, "sequence.handle")
	if h == nil {
		return
	}
	var expect []byte
	if second == 0 {
		expect = append(expect, p1...)
	}
	expect = append(expect, p2...)
	verifrt.Assert(len(h.Disk) == len(expect), "sequence.stored-length")
	if len(h.Disk) == len(expect) {
		same := true
		for i := range expect {
			same = same && h.Disk[i] == expect[i]
		}
		verifrt.Assert(same, "sequence.stored-bytes")
	}
	if second == 2 {
		a := w.base.LastHandle(pathA)
		verifrt.Assert(a != nil && a.Closes == 1 && len(a.Disk) == n1, "sequence.first-file-complete-and-closed")
	}
	w.noLeak("sequence")
	_ = w.ctx.Close()
	verifrt.Assert(w.led.Opened == w.led.Closed, "sequence.close-releases-all")
}

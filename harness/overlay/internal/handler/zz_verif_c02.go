//go:build verif

package handler

// C02: served bytes equal stored bytes for every offset and length
// (wire request -> real server -> real handler -> real fs.FS -> stub base fs; answer bytes checked).

import (
	"github.com/xakep666/ps3netsrv-go/internal/copier"
	"github.com/xakep666/ps3netsrv-go/internal/verifrt"
	"github.com/xakep666/ps3netsrv-go/internal/verifstub"
	"github.com/xakep666/ps3netsrv-go/pkg/fs"
	"github.com/xakep666/ps3netsrv-go/pkg/server"
)

func verifPut64(b []byte, v uint64) {
	verifPut32(b, uint32(v>>32))
	verifPut32(b[4:], uint32(v))
}

func verifGet32(b []byte) uint32 {
	return uint32(b[0])<<24 | uint32(b[1])<<16 | uint32(b[2])<<8 | uint32(b[3])
}

func verifGet64(b []byte) uint64 { return uint64(verifGet32(b))<<32 | uint64(verifGet32(b[4:])) }

func verifPathCmd(op uint16, path string) []byte {
	cmd := make([]byte, 16)
	cmd[0], cmd[1] = byte(op>>8), byte(op)
	cmd[2], cmd[3] = byte(len(path)>>8), byte(len(path))
	return append(cmd, path...)
}

func verifReadCmd(op uint16, limit uint32, off uint64) []byte {
	cmd := make([]byte, 16)
	cmd[0], cmd[1] = byte(op>>8), byte(op)
	verifPut32(cmd[4:], limit)
	verifPut64(cmd[8:], off)
	return cmd
}

type verifC02Env struct {
	conn *verifstub.Conn
	ctx  *Context
	srv  *server.Server[State]
	size int64
	led  *verifstub.Ledger
}

// verifOpenPlain opens /dir/file.bin (a plain file of symbolic size and content "file") over the wire.
func verifOpenPlain(maxSize int, shortReads int, connShort int) *verifC02Env {
	return verifOpenPlainRange(0, int64(maxSize), shortReads, connShort)
}

func verifOpenPlainRange(minSize, maxSize int64, shortReads int, connShort int) *verifC02Env {
	e := &verifC02Env{led: &verifstub.Ledger{}}
	e.size = verifrt.Int64("size")
	verifrt.Assume(e.size >= minSize)
	verifrt.Assume(e.size <= maxSize)
	if maxSize >= 0xF70 {
		// a plain file: no 3k3y watermark at 0xF70 (masked views are the subject of C11)
		w := verifrt.ByteAt("file", 0xF70)
		verifrt.Assume(w != 0x44 && w != 0x45)
	}
	mtime := verifrt.Int64("mtime")
	file := &verifstub.File{Label: "file", Size: e.size, MTime: mtime, ShortBudget: shortReads}
	base := &verifstub.Fs{L: e.led, Entries: []*verifstub.Entry{{Path: "/dir/file.bin", File: file}}}
	bufSize := int64(3 + verifrt.Choice("poolbuf", 2))
	h := &Handler{Fs: &fs.FS{Fs: base}, Copier: copier.NewPooledCopier(bufSize)}
	e.srv = verifServer(h)
	e.conn = &verifstub.Conn{In: verifPathCmd(0x1224, "/dir/file.bin"), ShortBudget: connShort}
	e.ctx = server.VerifNewContext[State](e.conn)
	err := e.srv.VerifStep(e.ctx)
	verifrt.Assert(err == nil, "open.continues")
	verifrt.Assert(len(e.conn.Out) == 16, "open.response-length")
	if len(e.conn.Out) == 16 {
		verifrt.Assert(verifGet64(e.conn.Out) == uint64(e.size), "open.size")
		verifrt.Assert(verifGet64(e.conn.Out[8:]) == uint64(mtime), "open.mtime")
	}
	verifrt.Assert(e.conn.Pos == len(e.conn.In), "open.consumed")
	e.conn.Out = nil
	return e
}

func VerifC02_Read() {
	verifC02Read(verifOpenPlain(verifrt.Bound("C02.maxsize", 10, 20), 1, 0))
}

// The same for files of any size above the CD-detection window (1 GiB .. 2^62 bytes): offsets and
// remaining lengths that do not fit 32 bits.
func VerifC02_ReadLarge() {
	verifC02Read(verifOpenPlainRange(1<<30, 1<<62, 1, 0))
}

func VerifC02_ReadCriticalLarge() {
	verifC02ReadCritical(verifOpenPlainRange(1<<30, 1<<62, 1, 0))
}

func verifC02Read(e *verifC02Env) {
	limit := verifrt.Uint32("limit")
	verifrt.Assume(limit <= uint32(verifrt.Bound("C02.maxlimit", 8, 16)))
	off := verifrt.Uint64("off")
	e.conn.In = append(e.conn.In, verifReadCmd(0x1227, limit, off)...)
	err := e.srv.VerifStep(e.ctx)
	if off >= 1<<63 {
		// the protocol's offsets are positions in a file: such a request only ends the connection
		verifrt.Assert(err != nil && len(e.conn.Out) == 0, "read.huge-offset-ends-connection")
		return
	}
	m := int64(limit)
	avail := e.size - int64(off)
	if avail < 0 {
		avail = 0
	}
	if avail < m {
		m = avail
	}
	verifrt.Assert(err == nil, "read.continues")
	verifrt.Assert(e.conn.Pos == len(e.conn.In), "read.consumed")
	verifrt.Assert(int64(len(e.conn.Out)) == 4+m, "read.total-length")
	if int64(len(e.conn.Out)) == 4+m {
		verifrt.Assert(int64(int32(verifGet32(e.conn.Out))) == m, "read.announced-count")
		j := verifrt.Int64("j")
		verifrt.Assume(j >= 0)
		verifrt.Assume(j < m)
		verifrt.Assert(e.conn.Out[4+j] == verifrt.ByteAt("file", int64(off)+j), "read.byte")
	}
}

func VerifC02_ReadCritical() {
	verifC02ReadCritical(verifOpenPlain(verifrt.Bound("C02.maxsize", 10, 20), 1, 0))
}

func verifC02ReadCritical(e *verifC02Env) {
	limit := verifrt.Uint32("limit")
	verifrt.Assume(limit <= uint32(verifrt.Bound("C02.maxlimit", 8, 16)))
	off := verifrt.Uint64("off")
	e.conn.In = append(e.conn.In, verifReadCmd(0x1225, limit, off)...)
	err := e.srv.VerifStep(e.ctx)
	verifrt.Assert(e.conn.Pos == len(e.conn.In), "critical.consumed")
	if off >= 1<<63 {
		verifrt.Assert(err != nil && len(e.conn.Out) == 0, "critical.huge-offset-ends-connection")
		return
	}
	full := limit == 0 || e.size-int64(off) >= int64(limit) // off < 2^63 here, so no overflow
	if full {
		verifrt.Assert(err == nil, "critical.continues")
		verifrt.Assert(int64(len(e.conn.Out)) == int64(limit), "critical.length")
	} else {
		// cannot be satisfied in full: the connection is ended after at most a correct prefix
		verifrt.Assert(err != nil, "critical.ends-connection")
		verifrt.Assert(int64(len(e.conn.Out)) < int64(limit), "critical.prefix-only")
	}
	j := verifrt.Int64("j")
	verifrt.Assume(j >= 0)
	verifrt.Assume(j < int64(len(e.conn.Out)))
	verifrt.Assert(e.conn.Out[j] == verifrt.ByteAt("file", int64(off)+j), "critical.byte")
}

// Reads without an open file end the connection without stray bytes.
func VerifC02_NoFile() {
	conn := &verifstub.Conn{In: verifReadCmd(uint16(0x1225+2*verifrt.Choice("op", 2)), verifrt.Uint32("limit"), verifrt.Uint64("off"))}
	h := &Handler{Copier: copier.NewPooledCopier(4)}
	ctx := server.VerifNewContext[State](conn)
	err := verifServer(h).VerifStep(ctx)
	verifrt.Assert(err != nil && len(conn.Out) == 0, "nofile.ends-connection")
}

// Two files on one connection: what was read from the first never shows in reads of the second.
func VerifC02_Reopen() {
	led := &verifstub.Ledger{}
	sa, sb := verifrt.Int64("a.size"), verifrt.Int64("b.size")
	verifrt.Assume(sa >= 0)
	verifrt.Assume(sa <= 6)
	verifrt.Assume(sb >= 0)
	verifrt.Assume(sb <= 6)
	base := &verifstub.Fs{L: led, Entries: []*verifstub.Entry{
		{Path: "/a.bin", File: &verifstub.File{Label: "filea", Size: sa}},
		{Path: "/b.bin", File: &verifstub.File{Label: "fileb", Size: sb}},
	}}
	h := &Handler{Fs: &fs.FS{Fs: base}, Copier: copier.NewPooledCopier(4)}
	srv := verifServer(h)
	conn := &verifstub.Conn{}
	ctx := server.VerifNewContext[State](conn)
	step := func(req []byte) error {
		conn.In = append(conn.In, req...)
		conn.Out = nil
		return srv.VerifStep(ctx)
	}
	verifrt.Assert(step(verifPathCmd(0x1224, "/a.bin")) == nil, "reopen.open-a")
	l1, o1 := verifrt.Uint32("limit1"), verifrt.Uint64("off1")
	verifrt.Assume(l1 <= 4)
	verifrt.Assume(o1 <= 8)
	op1 := uint16(0x1225 + 2*verifrt.Choice("op1", 2))
	_ = step(verifReadCmd(op1, l1, o1))
	if verifrt.Bool("closefile-between") {
		verifrt.Assert(step(verifPathCmd(0x1224, "/CLOSEFILE")) == nil, "reopen.closefile")
	}
	if ctx.State.ROFile == nil && op1 == 0x1225 && int64(o1)+int64(l1) > sa {
		// the critical read could not be satisfied: the connection would have ended here
		return
	}
	verifrt.Assert(step(verifPathCmd(0x1224, "/b.bin")) == nil, "reopen.open-b")
	l2, o2 := verifrt.Uint32("limit2"), verifrt.Uint64("off2")
	verifrt.Assume(l2 >= 1)
	verifrt.Assume(l2 <= 4)
	verifrt.Assume(o2 <= 8)
	err := step(verifReadCmd(0x1227, l2, o2))
	m := int64(l2)
	if sb-int64(o2) < m {
		m = sb - int64(o2)
	}
	if m < 0 {
		m = 0
	}
	verifrt.Assert(err == nil && int64(len(conn.Out)) == 4+m, "reopen.second-read-length")
	if int64(len(conn.Out)) == 4+m {
		j := verifrt.Int64("j")
		verifrt.Assume(j >= 0)
		verifrt.Assume(j < m)
		verifrt.Assert(conn.Out[4+j] == verifrt.ByteAt("fileb", int64(o2)+j), "reopen.second-read-bytes")
	}
}

// The file shrinks while it is open (truncated by someone else, or re-created through the same server): an ordinary
// read announces exactly the bytes that follow - those the file holds NOW - never a count remembered from the open.
func VerifC02_ReadShrunk() {
	e := verifOpenPlain(verifrt.Bound("C02.maxsize", 10, 20), 1, 0)
	f, ok := e.ctx.State.ROFile.(*verifstub.File)
	verifrt.Assert(ok, "shrunk.plain-file-handle")
	if !ok {
		return
	}
	ns := verifrt.Int64("size-now")
	verifrt.Assume(ns >= 0)
	verifrt.Assume(ns <= e.size)
	f.Size, e.size = ns, ns
	verifC02Read(e)
}

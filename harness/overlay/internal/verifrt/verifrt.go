//go:build verif

// Package verifrt holds the verification primitives used by the harnesses in
// zz_verif_*.go files. The symbolic executor (/verif/engine) intercepts every
// function of this package; the bodies below are the native side, used when a
// counterexample is replayed against the compiled code: nondeterministic
// values come from the replay table written by the engine.
package verifrt

import (
	"encoding/json"
	"fmt"
	"os"
	"strconv"
	"time"
)

type replay struct {
	Harness string            `json:"harness"`
	Values  map[string]uint64 `json:"values"`
}

var (
	table    = map[string]uint64{}
	seq      = map[string]int{}
	Failures []string
	Trace    []string
)

type AssumeFailed struct{}

func Load(path string) (string, error) {
	b, err := os.ReadFile(path)
	if err != nil {
		return "", err
	}
	var r replay
	if err := json.Unmarshal(b, &r); err != nil {
		return "", err
	}
	table = r.Values
	if table == nil {
		table = map[string]uint64{}
	}
	Reset()
	return r.Harness, nil
}

func Reset() {
	seq = map[string]int{}
	Failures = nil
	Trace = nil
}

func next(label string) uint64 {
	k := label + "#" + strconv.Itoa(seq[label])
	seq[label]++
	return table[k]
}

func Symbolic() bool         { return false }
func Int(l string) int       { return int(next(l)) }
func Int64(l string) int64   { return int64(next(l)) }
func Int32(l string) int32   { return int32(next(l)) }
func Uint64(l string) uint64 { return next(l) }
func Uint32(l string) uint32 { return uint32(next(l)) }
func Uint16(l string) uint16 { return uint16(next(l)) }
func Byte(l string) byte     { return byte(next(l)) }
func Bool(l string) bool     { return next(l) != 0 }

// Bytes returns a fresh byte slice of length n with unconstrained content.
func Bytes(label string, n int) []byte {
	arr := label + "#" + strconv.Itoa(seq[label])
	seq[label]++
	b := make([]byte, n)
	for i := range b {
		b[i] = byte(table[arr+"["+strconv.Itoa(i)+"]"])
	}
	return b
}

// ByteAt is cell i of the unbounded uninterpreted byte array `array`.
func ByteAt(array string, i int64) byte {
	return byte(table[array+"["+strconv.FormatInt(i, 10)+"]"])
}

// FillFromArray sets dst[k] = ByteAt(array, pos+k) for every k.
func FillFromArray(dst []byte, array string, pos int64) {
	for k := range dst {
		dst[k] = ByteAt(array, pos+int64(k))
	}
}

func Assume(c bool) {
	if !c {
		panic(AssumeFailed{})
	}
}

func Assert(c bool, label string) {
	if !c {
		Failures = append(Failures, label)
	}
}

func Reachable(label string) {}

// Bound is a named bound with a quick-tier and a thorough-tier value.
func Bound(name string, quick, thorough int) int {
	if os.Getenv("VERIF_TIER") == "thorough" {
		return thorough
	}
	return quick
}

// Choice returns a value in [0,n); the engine explores every value on a separate path.
func Choice(label string, n int) int { return int(next(label)) % n }

// Fork asks the engine to explore both outcomes of c on separate paths.
func Fork(c bool) bool { return c }

func Observe(label string, v int64) { Trace = append(Trace, fmt.Sprintf("%s=%d", label, v)) }

// Time is an arbitrary instant.
func Time(label string) time.Time { return time.Unix(int64(next(label)), 0) }

func TimeUnix(sec int64) time.Time { return time.Unix(sec, 0) }

// UF is the value of the uninterpreted function fn at (a, b, c).
func UF(fn string, a, b, c uint64) byte {
	return byte(table[fn+"["+strconv.FormatUint(a, 10)+","+strconv.FormatUint(b, 10)+","+strconv.FormatUint(c, 10)+"]"])
}

// MapBytes sets dst[k] = UF(fn, tag, k, src[k]) for every k < len(src) (dst and src may be the same slice).
func MapBytes(dst, src []byte, fn string, tag uint64) {
	for k := range src {
		dst[k] = UF(fn, tag, uint64(k), uint64(src[k]))
	}
}

// SameSlice reports whether a and b start at the same element and have the same length.
func SameSlice(a, b []byte) bool {
	if len(a) != len(b) {
		return false
	}
	return len(a) == 0 || &a[0] == &b[0]
}

// NativeUnsupportedError is raised by harnesses that cannot run natively.
type NativeUnsupportedError string

// NativeUnsupported marks a harness whose environment stubs replace functions of the repository or of
// a dependency (verifStub_* functions, injected by the engine only). A counterexample of such a harness
// is confirmed by re-execution inside the engine instead of natively.
func NativeUnsupported(reason string) { panic(NativeUnsupportedError(reason)) }

// ConcreteBuffers tells the engine to keep byte buffers that are built from concrete pieces cell by cell
// (used by the image-constructor harnesses whose metadata buffer is inspected at concrete positions).
func ConcreteBuffers() {}

// Inconclusive ends the path as INCONCLUSIVE (exit 3, never a VIOLATION): the harness has no way to observe the
// property on this code (for instance the mechanism it instruments is no longer used).
func Inconclusive(reason string) { panic(NativeUnsupportedError("inconclusive: " + reason)) }

// Goroutines switches the engine's cooperative goroutine schedule on for this harness (engine/sched.go):
// `go` statements are queued and run to completion when the running code blocks, at Yield and at the end.
func Goroutines() {}

// Yield lets every started goroutine run to completion (engine); natively it only gives them a chance.
func Yield() { time.Sleep(10 * time.Millisecond) }

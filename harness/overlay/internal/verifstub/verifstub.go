//go:build verif

// Package verifstub holds the environment stubs shared by the harnesses: files,
// a file system, file infos and a connection whose behaviour is described with
// the verifrt primitives. The same code is executed symbolically by the engine
// and natively when a counterexample is replayed.
package verifstub

import (
	"errors"
	"io"
	"io/fs"
	"net"
	"os"
	"time"

	"github.com/spf13/afero"

	"github.com/xakep666/ps3netsrv-go/internal/verifrt"
)

var ErrIO = errors.New("verifstub: injected I/O error")

// Ledger counts what happened to the environment.
type Ledger struct {
	Opened, Closed int
	Events         []Event
}

type Event struct {
	Op   string
	Path string
	Flag int
	Data []byte
}

func (l *Ledger) add(op, path string, flag int) {
	if l != nil {
		l.Events = append(l.Events, Event{Op: op, Path: path, Flag: flag})
	}
}

// Mutations counts the events that change the file system.
func (l *Ledger) Mutations() int {
	n := 0
	for _, e := range l.Events {
		switch e.Op {
		case "remove", "mkdir", "write", "truncate", "rename", "chmod":
			n++
		case "openfile":
			if e.Flag&(os.O_WRONLY|os.O_RDWR|os.O_APPEND|os.O_CREATE|os.O_TRUNC) != 0 {
				n++
			}
		}
	}
	return n
}

// File is a fixed byte string content[0,Size) (cell i is verifrt.ByteAt(Label, i)) with a cursor.
type File struct {
	Label  string // name of the uninterpreted content array
	Data   []byte // when set: concrete content (Size must equal len(Data))
	Path   string
	Size   int64
	Pos    int64
	Dir    bool
	MTime  int64
	Closes int
	L      *Ledger

	Faults      bool // every operation may fail
	ShortBudget int  // how many more reads may return fewer bytes than possible
	StatFails   bool

	SysV    interface{} // returned by Sys() of the file's infos
	Names   []string    // directory entries
	Infos   []fs.FileInfo
	Listed  int
	Written []byte // bytes written through Write, in order
	// Disk is the content model of a handle opened for writing: Write stores at the handle's own
	// write offset WPos (gaps read as zero), Truncate cuts or zero-extends without moving WPos.
	Disk []byte
	WPos int
}

var _ afero.File = (*File)(nil)

func (f *File) fault(what string) bool {
	return f.Faults && verifrt.Bool("fault."+what)
}

func (f *File) Name() string { return f.Path }

func (f *File) Close() error {
	f.Closes++
	if f.L != nil {
		f.L.Closed++
	}
	if f.fault("close") {
		return ErrIO
	}
	return nil
}

func (f *File) Read(p []byte) (int, error) {
	if f.fault("read") {
		return 0, ErrIO
	}
	if len(p) == 0 {
		return 0, nil
	}
	avail := f.Size - f.Pos
	if avail <= 0 {
		return 0, io.EOF
	}
	n := int64(len(p))
	if avail < n {
		n = avail
	}
	if f.ShortBudget > 0 && n > 1 && verifrt.Bool("read.short") {
		f.ShortBudget--
		m := verifrt.Int64("read.shortlen")
		verifrt.Assume(1 <= m && m < n)
		n = m
	}
	f.fill(p[:n], f.Pos)
	f.Pos += n
	return int(n), nil
}

func (f *File) fill(p []byte, pos int64) {
	if f.Data != nil {
		copy(p, f.Data[pos:])
		return
	}
	verifrt.FillFromArray(p, f.Label, pos)
}

func (f *File) ReadAt(p []byte, off int64) (int, error) {
	if f.fault("readat") {
		return 0, ErrIO
	}
	if off < 0 {
		return 0, os.ErrInvalid
	}
	if off >= f.Size {
		return 0, io.EOF
	}
	n := int64(len(p))
	short := false
	if f.Size-off < n {
		n = f.Size - off
		short = true
	}
	f.fill(p[:n], off)
	if short {
		return int(n), io.EOF
	}
	return int(n), nil
}

func (f *File) Seek(offset int64, whence int) (int64, error) {
	if f.fault("seek") {
		return 0, ErrIO
	}
	var np int64
	switch whence {
	case io.SeekStart:
		np = offset
	case io.SeekCurrent:
		np = f.Pos + offset
	case io.SeekEnd:
		np = f.Size + offset
	default:
		return 0, os.ErrInvalid
	}
	if np < 0 {
		return 0, os.ErrInvalid
	}
	f.Pos = np
	f.WPos = int(np)
	return np, nil
}

func (f *File) Write(p []byte) (int, error) {
	f.L.add("write", f.Path, 0)
	if f.fault("write") {
		return 0, ErrIO
	}
	f.Written = append(f.Written, p...)
	for len(f.Disk) < f.WPos {
		f.Disk = append(f.Disk, 0)
	}
	if f.WPos+len(p) >= len(f.Disk) {
		f.Disk = append(f.Disk[:f.WPos], p...)
	} else {
		copy(f.Disk[f.WPos:], p)
	}
	f.WPos += len(p)
	return len(p), nil
}

func (f *File) WriteAt(p []byte, off int64) (int, error) {
	f.L.add("write", f.Path, 0)
	return 0, ErrIO
}

func (f *File) WriteString(s string) (int, error) { return f.Write([]byte(s)) }

func (f *File) Truncate(size int64) error {
	f.L.add("truncate", f.Path, 0)
	if size >= 0 && size <= int64(len(f.Disk)) {
		f.Disk = f.Disk[:size]
	} else if size > 0 && size < 1<<16 {
		for int64(len(f.Disk)) < size {
			f.Disk = append(f.Disk, 0)
		}
	}
	return nil
}

func (f *File) Sync() error { return nil }

func (f *File) Stat() (fs.FileInfo, error) {
	if f.StatFails || f.fault("stat") {
		return nil, ErrIO
	}
	return &Info{NameV: baseName(f.Path), SizeV: f.Size, DirV: f.Dir, MTimeV: f.MTime}, nil
}

func (f *File) Readdir(count int) ([]fs.FileInfo, error) {
	if f.fault("readdir") {
		return nil, ErrIO
	}
	if count > 0 {
		if f.Listed >= len(f.Infos) {
			return nil, io.EOF
		}
		end := f.Listed + count
		if end > len(f.Infos) {
			end = len(f.Infos)
		}
		r := f.Infos[f.Listed:end]
		f.Listed = end
		return r, nil
	}
	r := f.Infos[f.Listed:]
	f.Listed = len(f.Infos)
	return r, nil
}

func (f *File) Readdirnames(n int) ([]string, error) {
	if f.fault("readdirnames") {
		return nil, ErrIO
	}
	if n > 0 {
		if f.Listed >= len(f.Names) {
			return nil, io.EOF
		}
		end := f.Listed + n
		if end > len(f.Names) {
			end = len(f.Names)
		}
		r := f.Names[f.Listed:end]
		f.Listed = end
		return r, nil
	}
	r := f.Names[f.Listed:]
	f.Listed = len(f.Names)
	return r, nil
}

func baseName(p string) string {
	for i := len(p) - 1; i >= 0; i-- {
		if p[i] == '/' {
			return p[i+1:]
		}
	}
	return p
}

// Info is a file info with symbolic fields.
type Info struct {
	NameV  string
	SizeV  int64
	DirV   bool
	MTimeV int64
	ModeV  fs.FileMode
	SysV   interface{}
}

func (i *Info) Name() string { return i.NameV }
func (i *Info) Size() int64  { return i.SizeV }
func (i *Info) Mode() fs.FileMode {
	if i.DirV {
		return i.ModeV | fs.ModeDir
	}
	return i.ModeV
}
func (i *Info) ModTime() time.Time { return verifrt.TimeUnix(i.MTimeV) }
func (i *Info) IsDir() bool        { return i.DirV }
func (i *Info) Sys() interface{}   { return i.SysV }

// Entry is one object of the stub file system.
type Entry struct {
	Path string
	File *File // template: content label, size, dir flag, names
	Gone bool  // Stat/Open answer not-exist
}

// Fs is a file system made of a fixed list of entries; every call is recorded in L.
type Fs struct {
	Entries []*Entry
	L       *Ledger
	Faults  bool
	// FaultErr is what an injected fault returns (nil = ErrIO); FaultBudget bounds the number of injected faults (0 = any)
	FaultErr    error
	FaultBudget int
	faultsUsed  int
	// LastResultOK is the outcome of the last Mkdir/Remove/Rename
	LastResultOK bool
	// Guard, when set, is called with the path of every operation before anything else.
	Guard func(op, path string)
	// Missing decides what happens for paths that are not listed: nil = not exist
	Missing func(op, path string) (*File, error)
	// Handles lists every handle handed out, in order of opening.
	Handles []*File
}

// LastHandle returns the most recently opened handle of a path (nil if none).
func (s *Fs) LastHandle(path string) *File {
	for i := len(s.Handles) - 1; i >= 0; i-- {
		if trimSlash(s.Handles[i].Path) == trimSlash(path) {
			return s.Handles[i]
		}
	}
	return nil
}

var _ afero.Fs = (*Fs)(nil)

func (s *Fs) fault(what string) bool {
	if !s.Faults || (s.FaultBudget != 0 && s.faultsUsed >= s.FaultBudget) {
		return false
	}
	if verifrt.Bool("fsfault." + what) {
		s.faultsUsed++
		return true
	}
	return false
}

// ferr is the error an injected file-system fault reports (FaultErr, or ErrIO when unset).
func (s *Fs) ferr() error {
	if s.FaultErr != nil {
		return s.FaultErr
	}
	return ErrIO
}

func trimSlash(p string) string {
	for len(p) > 0 && p[0] == '/' {
		p = p[1:]
	}
	return p
}

// find looks a path up; a leading slash is irrelevant (the real base-path fs joins names to its root)
func (s *Fs) find(path string) *Entry {
	path = trimSlash(path)
	for _, e := range s.Entries {
		if trimSlash(e.Path) == path {
			return e
		}
	}
	return nil
}

func (s *Fs) note(op, path string, flag int) {
	if s.Guard != nil {
		s.Guard(op, path)
	}
	s.L.add(op, path, flag)
}

func (s *Fs) open(op, name string, flag int) (afero.File, error) {
	s.note(op, name, flag)
	if s.fault(op) {
		return nil, s.ferr()
	}
	e := s.find(name)
	var tmpl *File
	if (e == nil || e.Gone) && flag&os.O_CREATE != 0 && s.Missing == nil {
		// created by this open
		tmpl = &File{Label: "created", Faults: s.Faults}
	} else if e == nil || e.Gone {
		if s.Missing == nil {
			return nil, os.ErrNotExist
		}
		f, err := s.Missing(op, name)
		if err != nil {
			return nil, err
		}
		tmpl = f
	} else {
		tmpl = e.File
	}
	h := *tmpl // every open gets its own cursor
	h.Path = name
	h.L = s.L
	h.Pos = 0
	h.Listed = 0
	h.Closes = 0
	h.Written, h.Disk, h.WPos = nil, nil, 0
	if s.L != nil {
		s.L.Opened++
	}
	s.Handles = append(s.Handles, &h)
	return &h, nil
}

func (s *Fs) Open(name string) (afero.File, error) { return s.open("open", name, os.O_RDONLY) }

func (s *Fs) OpenFile(name string, flag int, perm os.FileMode) (afero.File, error) {
	return s.open("openfile", name, flag)
}

func (s *Fs) Create(name string) (afero.File, error) {
	return s.open("openfile", name, os.O_RDWR|os.O_CREATE|os.O_TRUNC)
}

func (s *Fs) Stat(name string) (os.FileInfo, error) {
	s.note("stat", name, 0)
	if s.fault("stat") {
		return nil, s.ferr()
	}
	e := s.find(name)
	if e == nil || e.Gone {
		if s.Missing != nil {
			f, err := s.Missing("stat", name)
			if err != nil {
				return nil, err
			}
			return &Info{NameV: baseName(name), SizeV: f.Size, DirV: f.Dir, MTimeV: f.MTime}, nil
		}
		return nil, os.ErrNotExist
	}
	return &Info{NameV: baseName(name), SizeV: e.File.Size, DirV: e.File.Dir, MTimeV: e.File.MTime, SysV: e.File.SysV}, nil
}

func (s *Fs) result(op string) error {
	s.LastResultOK = verifrt.Bool("fsresult." + op)
	if s.LastResultOK {
		return nil
	}
	return ErrIO
}

func (s *Fs) Mkdir(name string, perm os.FileMode) error {
	s.note("mkdir", name, 0)
	return s.result("mkdir")
}
func (s *Fs) MkdirAll(path string, perm os.FileMode) error {
	s.note("mkdir", path, 0)
	return s.result("mkdirall")
}
func (s *Fs) Remove(name string) error {
	s.note("remove", name, 0)
	return s.result("remove")
}
func (s *Fs) RemoveAll(path string) error {
	s.note("remove", path, 0)
	return s.result("removeall")
}
func (s *Fs) Rename(oldname, newname string) error {
	s.note("rename", oldname, 0)
	return s.result("rename")
}
func (s *Fs) Name() string { return "verifstub.Fs" }
func (s *Fs) Chmod(name string, mode os.FileMode) error {
	s.note("chmod", name, 0)
	return nil
}
func (s *Fs) Chown(name string, uid, gid int) error {
	s.note("chmod", name, 0)
	return nil
}
func (s *Fs) Chtimes(name string, atime time.Time, mtime time.Time) error {
	s.note("chmod", name, 0)
	return nil
}

// Conn is a connection whose input is a fixed byte string; everything written is collected in Out.
type Conn struct {
	In          []byte
	Pos         int
	Out         []byte
	Closes      int
	ShortBudget int  // how many reads may deliver fewer bytes than available (segmentation)
	WriteFaults bool // writes may fail
	EndErr      bool // after the input: an error (reset/timeout) instead of EOF
	Deadlines   []time.Time
	ReadsAfter  []int // number of deadlines set when each Read was issued
	DeadlineErr bool
	Remote      net.Addr
	OnRead      ReadClock
}

var _ net.Conn = (*Conn)(nil)

func (c *Conn) Read(p []byte) (int, error) {
	c.ReadsAfter = append(c.ReadsAfter, len(c.Deadlines))
	if c.OnRead != nil {
		var active time.Time
		if len(c.Deadlines) > 0 {
			active = c.Deadlines[len(c.Deadlines)-1]
		}
		c.OnRead(active)
	}
	if len(p) == 0 {
		return 0, nil
	}
	rem := len(c.In) - c.Pos
	if rem <= 0 {
		if c.EndErr {
			return 0, ErrIO
		}
		return 0, io.EOF
	}
	n := len(p)
	if rem < n {
		n = rem
	}
	if c.ShortBudget > 0 && n > 1 && verifrt.Bool("conn.short") {
		c.ShortBudget--
		m := verifrt.Int("conn.shortlen")
		verifrt.Assume(m >= 1)
		verifrt.Assume(m < n)
		n = m
	}
	copy(p[:n], c.In[c.Pos:])
	c.Pos += n
	return n, nil
}

func (c *Conn) Write(p []byte) (int, error) {
	if c.WriteFaults && verifrt.Bool("conn.writefault") {
		return 0, ErrIO
	}
	c.Out = append(c.Out, p...)
	return len(p), nil
}

func (c *Conn) Close() error {
	c.Closes++
	return nil
}

func (c *Conn) LocalAddr() net.Addr { return &net.TCPAddr{} }
func (c *Conn) RemoteAddr() net.Addr {
	if c.Remote != nil {
		return c.Remote
	}
	return &net.TCPAddr{}
}
func (c *Conn) SetDeadline(t time.Time) error      { return nil }
func (c *Conn) SetWriteDeadline(t time.Time) error { return nil }
func (c *Conn) SetReadDeadline(t time.Time) error {
	if c.DeadlineErr && verifrt.Bool("conn.deadlinefault") {
		return ErrIO
	}
	c.Deadlines = append(c.Deadlines, t)
	return nil
}

// InfoA additionally reports an access time, InfoAC an access and a change time
// (the optional interfaces of pkg/proto).
type InfoA struct {
	Info
	ATimeV int64
}

func (i *InfoA) AccessTime() time.Time { return verifrt.TimeUnix(i.ATimeV) }

type InfoAC struct {
	InfoA
	CTimeV int64
}

func (i *InfoAC) ChangeTime() time.Time { return verifrt.TimeUnix(i.CTimeV) }

// NewInfo returns a file info with symbolic fields; kind 0 = plain, 1 = with access time, 2 = with access and change time.
// It also returns the expected (mtime, ctime, atime) triple.
func NewInfo(label string, name string, kind int) (fs.FileInfo, int64, int64, int64) {
	base := Info{NameV: name, SizeV: verifrt.Int64(label + ".size"), DirV: verifrt.Bool(label + ".isdir"), MTimeV: verifrt.Int64(label + ".mtime")}
	switch kind {
	case 1:
		a := verifrt.Int64(label + ".atime")
		return &InfoA{Info: base, ATimeV: a}, base.MTimeV, base.MTimeV, a
	case 2:
		a, c := verifrt.Int64(label+".atime"), verifrt.Int64(label+".ctime")
		return &InfoAC{InfoA: InfoA{Info: base, ATimeV: a}, CTimeV: c}, base.MTimeV, c, a
	}
	return &base, base.MTimeV, base.MTimeV, base.MTimeV
}

// ReadClock, when set on a Conn, is called at every Read with the deadline in force (zero time if none).
type ReadClock func(active time.Time)

//go:build verif

package fs

// C11: image-kind detection, key discovery, 3k3y masking.

import (
	"io"
	"os"
	"strings"

	"github.com/xakep666/ps3netsrv-go/internal/verifrt"
	"github.com/xakep666/ps3netsrv-go/internal/verifstub"
)

// ---- masking of the 256-byte watermark/key area ----

func verifMaskedByte(arr string, pos int64) byte {
	if pos >= 0xF70 && pos < 0x1070 {
		return 0
	}
	return verifrt.ByteAt(arr, pos)
}

func VerifC11_Mask() {
	var iso ISO3k3y
	start := verifrt.Int64("start")
	n := verifrt.Int("n")
	verifrt.Assume(start >= 0)
	verifrt.Assume(start < 1<<40)
	verifrt.Assume(n >= 1)
	verifrt.Assume(n <= verifrt.Bound("C11.maxbuf", 0x1100, 0x2100))
	data := verifrt.Bytes("d", n)
	iso.clear3k3yData(sizeBytes(start), data)
	j := verifrt.Int64("j")
	verifrt.Assume(j >= 0)
	verifrt.Assume(j < int64(n))
	pos := start + j
	if pos >= 0xF70 && pos < 0x1070 {
		verifrt.Assert(data[j] == 0, "mask.zeroed")
	} else {
		verifrt.Assert(data[j] == verifrt.ByteAt("d#0", j), "mask.untouched")
	}
}

func VerifC11_3k3yRead() {
	size := verifrt.Int64("size")
	verifrt.Assume(size >= 0)
	verifrt.Assume(size < 1<<40)
	f := &verifstub.File{Label: "img", Path: "/g.iso", Size: size, ShortBudget: 1, L: &verifstub.Ledger{}}
	cur0 := verifrt.Int64("initialcursor")
	verifrt.Assume(cur0 >= 0)
	verifrt.Assume(cur0 < 1<<40)
	f.Pos = cur0
	iso, err := NewISO3k3y(f)
	verifrt.Assert(err == nil && int64(iso.offset) == cur0, "3k3y.new-tracks-cursor")
	n := verifrt.Int("n")
	verifrt.Assume(n >= 1)
	verifrt.Assume(n <= verifrt.Bound("C11.maxbuf", 0x1100, 0x2100))
	buf := verifrt.Bytes("buf", n)
	var got int
	var base int64
	if verifrt.Choice("op", 2) == 0 {
		cur := verifrt.Int64("cursor")
		verifrt.Assume(cur >= 0)
		verifrt.Assume(cur < 1<<40)
		p, serr := iso.Seek(cur, io.SeekStart)
		verifrt.Assert(serr == nil && p == cur && int64(iso.offset) == cur, "3k3y.seek")
		got, err = iso.Read(buf)
		base = cur
		if err == nil {
			verifrt.Assert(int64(iso.offset) == cur+int64(got) && f.Pos == cur+int64(got), "3k3y.read-cursor")
		}
	} else {
		base = verifrt.Int64("off")
		verifrt.Assume(base >= 0)
		verifrt.Assume(base < 1<<40)
		got, err = iso.ReadAt(buf, base)
	}
	verifrt.Assert(got >= 0 && got <= n && (base >= size || int64(got) <= size-base), "3k3y.count")
	if base < size {
		verifrt.Assert(got >= 1, "3k3y.progress")
	}
	j := verifrt.Int64("j")
	verifrt.Assume(j >= 0)
	verifrt.Assume(j < int64(got))
	verifrt.Assert(buf[j] == verifMaskedByte("img", base+j), "3k3y.byte")
}

// ---- Test3k3yImage ----

var verifEncWM = [16]byte{0x44, 0x6E, 0x63, 0x72, 0x79, 0x70, 0x74, 0x65, 0x64, 0x20, 0x33, 0x4B, 0x20, 0x42, 0x4C, 0x44}
var verifDecWM = [16]byte{0x45, 0x6E, 0x63, 0x72, 0x79, 0x70, 0x74, 0x65, 0x64, 0x20, 0x33, 0x4B, 0x20, 0x42, 0x4C, 0x44}

// verifWatermarkClass: 0 = none, 1 = encrypted, 2 = decrypted (by the content of the array at 0xF70)
func verifWatermarkClass(arr string) int {
	enc, dec := true, true
	for i := 0; i < 16; i++ {
		b := verifrt.ByteAt(arr, 0xF70+int64(i))
		enc = enc && b == verifEncWM[i]
		dec = dec && b == verifDecWM[i]
	}
	switch {
	case enc:
		return 1
	case dec:
		return 2
	}
	return 0
}

func VerifC11_Test3k3y() {
	size := verifrt.Int64("size")
	verifrt.Assume(size >= 0)
	verifrt.Assume(size < 1<<40)
	f := &verifstub.File{Label: "img", Path: "/g.iso", Size: size, Faults: verifrt.Bool("faults"), L: &verifstub.Ledger{}}
	key, err := Test3k3yImage(f)
	if err == verifstub.ErrIO {
		verifrt.Assert(f.Faults, "test3k3y.io-error-only-with-fault")
		return
	}
	cls := 0
	if size >= 0xF70+256 {
		cls = verifWatermarkClass("img")
	}
	switch cls {
	case 0:
		verifrt.Assert(err == ErrNot3k3y && key == nil, "test3k3y.not3k3y")
	case 1:
		verifrt.Assert(err == nil && len(key) == 16, "test3k3y.encrypted")
		if err == nil && len(key) == 16 {
			i := verifrt.Int("ki")
			verifrt.Assume(i >= 0)
			verifrt.Assume(i < 16)
			verifrt.Assert(key[i] == verifrt.ByteAt("img", 0xF80+int64(i)), "test3k3y.embedded-key")
		}
	case 2:
		verifrt.Assert(err == nil && len(key) == 0, "test3k3y.decrypted")
	}
}

// ---- FS.OpenFile decision table ----

var verifC11Paths = []string{
	"/PS3ISO/g.iso", "/ps3iso/sub/g.ISO", "/Ps3Iso/g.Iso", "/PS3ISO/g.bin", "/GAMES/g.iso", "/PS3ISO/g", "/PS3ISOX/g.iso",
	// the directory's text also occurs elsewhere in the path (in an earlier element, in the file name)
	"/oldPS3ISO/PS3ISO/g.iso", "/xps3iso/ps3iso/sub/g.iso", "/PS3ISO/sub/PS3ISO.iso",
}

const verifKeyAHex = "00112233445566778899aabbccddeeff"
const verifKeyBHex = "0f1e2d3c4b5a69788796a5b4c3d2e1f0"

var verifKeyA = [16]byte{0x00, 0x11, 0x22, 0x33, 0x44, 0x55, 0x66, 0x77, 0x88, 0x99, 0xaa, 0xbb, 0xcc, 0xdd, 0xee, 0xff}
var verifKeyB = [16]byte{0x0f, 0x1e, 0x2d, 0x3c, 0x4b, 0x5a, 0x69, 0x78, 0x87, 0x96, 0xa5, 0xb4, 0xc3, 0xd2, 0xe1, 0xf0}

func verifLowerASCII(s string) string {
	b := []byte(s)
	for i := range b {
		if b[i] >= 'A' && b[i] <= 'Z' {
			b[i] += 'a' - 'A'
		}
	}
	return string(b)
}

func VerifC11_OpenFile() {
	verifrt.NativeUnsupported("AES is replaced by engine-injected cipher stubs")
	path := verifC11Paths[verifrt.Choice("path", len(verifC11Paths))]
	// oracle-side path analysis (own code)
	slash := strings.LastIndexByte(path, '/')
	base := path[slash+1:]
	ext := ""
	if dot := strings.LastIndexByte(base, '.'); dot >= 0 {
		ext = base[dot:]
	}
	isISO := verifLowerASCII(ext) == ".iso"
	ps3idx := -1
	elems := strings.Split(path, "/")
	for i, e := range elems {
		if verifLowerASCII(e) == "ps3iso" {
			ps3idx = i
			break
		}
	}
	adjacent := path[:len(path)-len(ext)] + ".dkey"
	redkey := ""
	if ps3idx >= 0 {
		var parts []string
		for i, e := range elems {
			switch {
			case e == "":
			case i == ps3idx:
				parts = append(parts, "REDKEY")
			case i == len(elems)-1:
				parts = append(parts, e[:len(e)-len(ext)]+".dkey")
			default:
				parts = append(parts, e)
			}
		}
		redkey = strings.Join(parts, "/")
	}

	led := &verifstub.Ledger{}
	size := verifrt.Int64("size")
	verifrt.Assume(size >= 0x3000)
	verifrt.Assume(size < 1<<40)
	verifrt.Assume(size%2048 == 0)
	img := &verifstub.File{Label: "img", Size: size}
	isDir := verifrt.Bool("target-is-directory") // a directory may be named like an image
	img.Dir = isDir
	// bound: region tables of at most C11.maxregions plain regions (larger tables only repeat the per-region checks of C10)
	verifrt.Assume(verifBE32("img", 0) <= uint32(verifrt.Bound("C11.maxregions", 2, 3)))
	hasA, hasB := verifrt.Bool("adjacentkey"), verifrt.Bool("redkey")
	malformedA := verifrt.Bool("adjacentkey.malformed")
	keyAText := verifKeyAHex
	if malformedA {
		keyAText = "00112233445566778899aabbccddeezz"
	}
	bfs := &verifstub.Fs{L: led, Entries: []*verifstub.Entry{
		{Path: path, File: img},
		{Path: adjacent, File: &verifstub.File{Data: []byte(keyAText), Size: int64(len(keyAText))}, Gone: !hasA},
	}}
	if redkey != "" {
		bfs.Entries = append(bfs.Entries, &verifstub.Entry{Path: redkey, File: &verifstub.File{Data: []byte(verifKeyBHex), Size: 32}, Gone: !hasB})
	}
	fsys := &FS{Fs: bfs}
	flag := os.O_RDONLY
	writeOpen := verifrt.Bool("writeopen")
	if writeOpen {
		flag = []int{os.O_WRONLY, os.O_RDWR | os.O_CREATE, os.O_WRONLY | os.O_TRUNC, os.O_RDONLY | os.O_APPEND}[verifrt.Choice("writeflags", 4)]
	}
	verifDerive.calls = 0

	f, err := fsys.OpenFile(path, flag, 0)

	keyLookups := 0
	for _, e := range led.Events {
		if strings.HasSuffix(e.Path, ".dkey") {
			keyLookups++
		}
	}
	if isDir && !writeOpen {
		// directories are never wrapped, whatever their name and whatever key files lie around
		_, raw := f.(*verifstub.File)
		verifrt.Assert(err == nil && raw, "open.directory-passthrough")
		return
	}
	if writeOpen {
		// passed through untouched: the base handle itself, no key lookup, no probing reads
		_, raw := f.(*verifstub.File)
		verifrt.Assert(err == nil && raw && keyLookups == 0, "open.write-passthrough")
		return
	}
	wantRedump := isISO && ps3idx >= 0 && (hasA || (hasB && redkey != ""))
	if !(isISO && ps3idx >= 0) {
		verifrt.Assert(keyLookups == 0, "open.no-key-lookup-for-other-files")
	}
	if err != nil {
		// errors: malformed key, or an invalid region table of an image that is to be decrypted
		verifrt.Assert(f == nil, "open.error-returns-no-file")
		verifrt.Assert(led.Opened == led.Closed, "open.error-closes-everything")
		cls := verifWatermarkClass("img")
		verifrt.Assert(wantRedump || cls == 1, "open.error-only-when-decrypting")
		return
	}
	verifrt.Assert(led.Opened == led.Closed+1, "open.key-files-closed")
	switch {
	case wantRedump:
		_, ok := f.(*EncryptedISO)
		verifrt.Assert(ok, "open.redump-kind")
		if ok {
			want := verifKeyA
			if !hasA {
				want = verifKeyB
			}
			verifrt.Assert(verifDerive.calls == 1 && verifDerive.input == want, "open.redump-key-source")
		}
	default:
		switch verifWatermarkClass("img") {
		case 1:
			w, ok := f.(*ISO3k3y)
			verifrt.Assert(ok, "open.3k3y-enc-kind")
			if ok {
				_, inner := w.privateFile.(*EncryptedISO)
				verifrt.Assert(inner, "open.3k3y-enc-decrypts")
				var emb [16]byte
				for i := range emb {
					emb[i] = verifrt.ByteAt("img", 0xF80+int64(i))
				}
				verifrt.Assert(verifDerive.calls == 1 && verifDerive.input == emb, "open.3k3y-embedded-key")
			}
		case 2:
			w, ok := f.(*ISO3k3y)
			verifrt.Assert(ok, "open.3k3y-dec-kind")
			if ok {
				_, inner := w.privateFile.(*verifstub.File)
				verifrt.Assert(inner && verifDerive.calls == 0, "open.3k3y-dec-no-decryption")
			}
		default:
			_, raw := f.(*verifstub.File)
			verifrt.Assert(raw && verifDerive.calls == 0, "open.plain-passthrough")
		}
	}
}

// C13 (data half): a key file that is delivered in pieces (short reads) or fails still yields the
// right key or an error - never a wrong key, which would silently serve wrong plaintext.
func VerifC13_KeyFile() {
	f := &verifstub.File{Data: []byte(verifKeyAHex), Size: 32, ShortBudget: verifrt.Bound("C13.keyfile.shortreads", 1, 1), Faults: verifrt.Bool("faults"), L: &verifstub.Ledger{}}
	key, err := ReadKeyFile(f)
	if err != nil {
		verifrt.Assert(f.Faults, "keyfile.error-only-with-fault")
		return
	}
	verifrt.Assert(len(key) == 16, "keyfile.length")
	same := len(key) == 16
	for i := 0; i < 16 && i < len(key); i++ {
		same = same && key[i] == verifKeyA[i]
	}
	verifrt.Assert(same, "keyfile.value")
}

// C13 (handle half of opening): whatever fails while a file is opened - the open itself, Stat, a key
// file that cannot be opened, read or decoded (in either location), the probing reads of the image -
// an error returns no file and leaves no handle open, and success leaves exactly the returned one,
// which Close releases.
func VerifC13_OpenFileHandles() {
	verifrt.NativeUnsupported("AES is replaced by engine-injected cipher stubs")
	path := [2]string{"/PS3ISO/g.iso", "/GAMES/g.iso"}[verifrt.Choice("path", 2)]
	led := &verifstub.Ledger{}
	size := verifrt.Int64("size")
	verifrt.Assume(size >= 0x3000)
	verifrt.Assume(size < 1<<40)
	verifrt.Assume(size%2048 == 0)
	img := &verifstub.File{Label: "img", Size: size, Faults: true}
	verifrt.Assume(verifBE32("img", 0) <= 2)
	hasA, hasB := verifrt.Bool("adjacentkey"), verifrt.Bool("redkey")
	keyAText := verifKeyAHex
	if verifrt.Bool("adjacentkey.malformed") {
		keyAText = "00112233445566778899aabbccddeezz"
	}
	bfs := &verifstub.Fs{L: led, Faults: true, Entries: []*verifstub.Entry{
		{Path: path, File: img},
		{Path: "/PS3ISO/g.dkey", File: &verifstub.File{Data: []byte(keyAText), Size: int64(len(keyAText)), Faults: true, ShortBudget: 1}, Gone: !hasA},
		{Path: "/REDKEY/g.dkey", File: &verifstub.File{Data: []byte(verifKeyBHex), Size: 32, Faults: true}, Gone: !hasB},
	}}
	fsys := &FS{Fs: bfs}
	f, err := fsys.OpenFile(path, os.O_RDONLY, 0)
	if err != nil {
		verifrt.Assert(f == nil, "openhandles.error-returns-no-file")
		verifrt.Assert(led.Opened == led.Closed, "openhandles.error-closes-everything")
		return
	}
	verifrt.Assert(f != nil && led.Opened == led.Closed+1, "openhandles.only-the-result-stays-open")
	if f != nil {
		_ = f.Close()
		verifrt.Assert(led.Opened == led.Closed, "openhandles.close-releases")
	}
}

// C11 (history): the key source is chosen anew on every open. One FS value, one image path, two opens;
// which key files exist is decided independently before each open (a key file appears, disappears or is
// replaced by the other source in between). The second open must pick its source from what exists then.
func VerifC11_Reopen() {
	verifrt.NativeUnsupported("AES is replaced by engine-injected cipher stubs")
	const path, adjacent, redkey = "/PS3ISO/g.iso", "/PS3ISO/g.dkey", "/REDKEY/g.dkey"
	led := &verifstub.Ledger{}
	size := verifrt.Int64("size")
	verifrt.Assume(size >= 0x3000)
	verifrt.Assume(size < 1<<40)
	verifrt.Assume(size%2048 == 0)
	img := &verifstub.File{Label: "img", Size: size, MTime: verifrt.Int64("img.mtime")}
	verifrt.Assume(verifBE32("img", 0) <= 2) // bound: region tables of at most 2 plain regions
	entA := &verifstub.Entry{Path: adjacent, File: &verifstub.File{Data: []byte(verifKeyAHex), Size: 32}}
	entB := &verifstub.Entry{Path: redkey, File: &verifstub.File{Data: []byte(verifKeyBHex), Size: 32}}
	bfs := &verifstub.Fs{L: led, Entries: []*verifstub.Entry{{Path: path, File: img}, entA, entB}}
	fsys := &FS{Fs: bfs}
	for round := 0; round < 2; round++ {
		hasA, hasB := verifrt.Bool("adjacentkey"), verifrt.Bool("redkey")
		entA.Gone, entB.Gone = !hasA, !hasB
		verifDerive.calls = 0
		f, err := fsys.OpenFile(path, os.O_RDONLY, 0)
		if err != nil {
			// only an image that is to be decrypted can be refused (invalid region table)
			verifrt.Assert(f == nil && (hasA || hasB || verifWatermarkClass("img") == 1), "reopen.error-only-when-decrypting")
			return
		}
		_, enc := f.(*EncryptedISO)
		if hasA || hasB {
			want := verifKeyA
			if !hasA {
				want = verifKeyB
			}
			verifrt.Assert(enc && verifDerive.calls == 1 && verifDerive.input == want, "reopen.key-source-of-this-open")
		} else {
			// no key file now: never decrypted with a key seen earlier
			verifrt.Assert(!enc, "reopen.no-key-no-redump-decryption")
			if verifWatermarkClass("img") != 1 {
				verifrt.Assert(verifDerive.calls == 0, "reopen.no-key-derivation")
			}
		}
		_ = f.Close()
	}
	verifrt.Assert(led.Opened == led.Closed, "reopen.all-released")
}

// C13 (fault, then a later request): the first open of an encrypted image meets I/O faults and short reads while its
// key file is read (every operation on the key file may fail); whatever that open returned, a second open of the
// same path through the same FS value - the faults gone - decrypts with the key that is in the key file.
func VerifC13_ReopenAfterKeyFault() {
	verifrt.NativeUnsupported("AES is replaced by engine-injected cipher stubs")
	const path, adjacent = "/PS3ISO/g.iso", "/PS3ISO/g.dkey"
	led := &verifstub.Ledger{}
	size := verifrt.Int64("size")
	verifrt.Assume(size >= 0x3000)
	verifrt.Assume(size < 1<<40)
	verifrt.Assume(size%2048 == 0)
	img := &verifstub.File{Label: "img", Size: size}
	verifrt.Assume(verifBE32("img", 0) <= 2) // bound: region tables of at most 2 plain regions
	keyFile := &verifstub.File{Data: []byte(verifKeyAHex), Size: 32, Faults: true, ShortBudget: 1}
	bfs := &verifstub.Fs{L: led, Entries: []*verifstub.Entry{{Path: path, File: img}, {Path: adjacent, File: keyFile}}}
	fsys := &FS{Fs: bfs}
	if f, err := fsys.OpenFile(path, os.O_RDONLY, 0); err == nil {
		_ = f.Close()
	}
	keyFile.Faults, keyFile.ShortBudget = false, 0
	verifDerive.calls = 0
	f, err := fsys.OpenFile(path, os.O_RDONLY, 0)
	if err != nil {
		return // an invalid region table is refused, as in a single open
	}
	_, enc := f.(*EncryptedISO)
	verifrt.Assert(enc && verifDerive.calls == 1 && verifDerive.input == verifKeyA, "keyfault.second-open-uses-the-real-key")
	_ = f.Close()
	verifrt.Assert(led.Opened == led.Closed, "keyfault.all-released")
}

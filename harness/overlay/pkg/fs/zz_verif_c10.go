//go:build verif

package fs

// C10: on-the-fly decryption equals the reference plaintext for any access pattern.
// AES itself is abstracted (DESIGN.md section 4, C10): the cipher objects are stubs whose
// CryptBlocks is an obligation (one whole 2048-byte sector, in place) plus a byte-wise
// uninterpreted effect D(sector from IV, index in span, old byte).

import (
	"crypto/cipher"
	"io"

	"github.com/xakep666/ps3netsrv-go/internal/verifrt"
	"github.com/xakep666/ps3netsrv-go/internal/verifstub"
)

// ---- cipher stubs ----

type verifBlock struct{ key [16]byte }

func (b *verifBlock) BlockSize() int          { return 16 }
func (b *verifBlock) Encrypt(dst, src []byte) { verifrt.Assert(false, "aes.raw-block-use") }
func (b *verifBlock) Decrypt(dst, src []byte) { verifrt.Assert(false, "aes.raw-block-use") }

type verifCBC struct {
	blk *verifBlock
	iv  [16]byte
	enc bool
}

// what the key derivation fed into the cipher (recorded for the oracle)
var verifDerive struct {
	calls   int
	input   [16]byte
	keyOK   bool
	ivOK    bool
	lastKey [16]byte // key of the block the last decrypter was built from
}

// independent copies of the documented constants (https://www.psdevwiki.com/ps3/Bluray_disc#Encryption)
var verifKeyData1 = [16]byte{0x38, 0x0b, 0xcf, 0x0b, 0x53, 0x45, 0x5b, 0x3c, 0x78, 0x17, 0xab, 0x4f, 0xa3, 0xba, 0x90, 0xed}
var verifIVData1 = [16]byte{0x69, 0x47, 0x47, 0x72, 0xaf, 0x6f, 0xda, 0xb3, 0x42, 0x74, 0x3a, 0xef, 0xaa, 0x18, 0x62, 0x87}

func (c *verifCBC) BlockSize() int { return 16 }

func (c *verifCBC) SetIV(iv []byte) {
	verifrt.Assert(len(iv) == 16, "cbc.iv-length")
	copy(c.iv[:], iv)
}

func (c *verifCBC) CryptBlocks(dst, src []byte) {
	if c.enc {
		// key derivation: one CBC-encrypt of the 16-byte disc key under the constant key and IV
		verifDerive.calls++
		verifDerive.keyOK = c.blk.key == verifKeyData1
		verifDerive.ivOK = c.iv == verifIVData1
		verifrt.Assert(len(src) == 16 && len(dst) >= 16, "derive.length")
		copy(verifDerive.input[:], src)
		for i := 0; i < 16; i++ {
			dst[i] = verifrt.ByteAt("derivedkey", int64(i))
		}
		return
	}
	if verifCBCTruncated {
		// what crypto/cipher itself demands (it panics otherwise): whole cipher blocks, room in dst
		verifrt.Assert(len(src)%16 == 0 && len(dst) >= len(src), "decrypt.full-cipher-blocks")
		if len(src) != 2048 {
			return
		}
	}
	verifrt.Assert(len(src) == 2048, "decrypt.whole-sector")
	ivPrefixZero := true
	for i := 0; i < 12; i++ {
		ivPrefixZero = ivPrefixZero && c.iv[i] == 0
	}
	verifrt.Assert(ivPrefixZero, "decrypt.iv-prefix-zero")
	keyDerived := true
	for i := 0; i < 16; i++ {
		keyDerived = keyDerived && c.blk.key[i] == verifrt.ByteAt("derivedkey", int64(i))
	}
	verifrt.Assert(keyDerived, "decrypt.uses-derived-key")
	sector := uint64(c.iv[12])<<24 | uint64(c.iv[13])<<16 | uint64(c.iv[14])<<8 | uint64(c.iv[15])
	verifrt.MapBytes(dst, src, "aesdec", sector)
}

func verifStub_aes_NewCipher(key []byte) (cipher.Block, error) {
	b := &verifBlock{}
	verifrt.Assert(len(key) == 16, "aes.key-length")
	copy(b.key[:], key)
	return b, nil
}

func verifStub_cipher_NewCBCDecrypter(b cipher.Block, iv []byte) cipher.BlockMode {
	c := &verifCBC{blk: b.(*verifBlock)}
	copy(c.iv[:], iv)
	return c
}

func verifStub_cipher_NewCBCEncrypter(b cipher.Block, iv []byte) cipher.BlockMode {
	c := &verifCBC{blk: b.(*verifBlock), enc: true}
	copy(c.iv[:], iv)
	return c
}

// ---- image model ----

type verifEncImage struct {
	count      uint32
	start, end [4]uint32 // plain regions
	size       int64
	file       *verifstub.File
	key        [16]byte
}

func verifBE32(arr string, pos int64) uint32 {
	return uint32(verifrt.ByteAt(arr, pos))<<24 | uint32(verifrt.ByteAt(arr, pos+1))<<16 |
		uint32(verifrt.ByteAt(arr, pos+2))<<8 | uint32(verifrt.ByteAt(arr, pos+3))
}

// verifNewEncImage describes an image whose content is the array "enc"; the region table is read from it.
func verifNewEncImage(faults bool, shortBudget int) *verifEncImage {
	im := &verifEncImage{}
	im.count = verifBE32("enc", 0)
	for i := 0; i < 4; i++ {
		im.start[i] = verifBE32("enc", 8+8*int64(i))
		im.end[i] = verifBE32("enc", 12+8*int64(i))
	}
	im.size = verifrt.Int64("enc.size")
	verifrt.Assume(im.size >= 0)
	verifrt.Assume(im.size < 1<<42)
	im.file = &verifstub.File{Label: "enc", Path: "/PS3ISO/g.iso", Size: im.size, Faults: faults, ShortBudget: shortBudget, L: &verifstub.Ledger{}}
	k := verifrt.Bytes("disckey", 16)
	copy(im.key[:], k)
	return im
}

// valid is the documented validity of the region table (for count <= 4)
func (im *verifEncImage) valid() bool {
	if im.count < 2 || im.count > 255 {
		return false
	}
	if im.start[0] != 0 {
		return false
	}
	var prevEnd uint32
	for i := 0; i < int(im.count) && i < 4; i++ {
		if im.end[i] <= im.start[i] || im.start[i] < prevEnd {
			return false
		}
		prevEnd = im.end[i]
	}
	return true
}

// plain is the reference view: byte p of the decrypted image
func (im *verifEncImage) plain(p int64, clearHeader bool) byte {
	if clearHeader && p < 8+8*int64(im.count) {
		return 0
	}
	s := uint64(p / 2048)
	stored := verifrt.ByteAt("enc", p)
	// encrypted = the gaps between consecutive plain regions
	for i := 1; i < int(im.count) && i < 4; i++ {
		if s >= uint64(im.end[i-1]) && s < uint64(im.start[i]) {
			return verifrt.UF("aesdec", s, uint64(p%2048), uint64(stored))
		}
	}
	return stored
}

func verifRegionCount() uint32 {
	return uint32(2 + verifrt.Choice("regions", verifrt.Bound("C10.maxregions", 1, 2)))
}

// ---- harnesses ----

// Acceptance of region tables, key derivation, no input-sized allocation.
func VerifC10_Accept() {
	verifrt.NativeUnsupported("AES is replaced by engine-injected cipher stubs")
	im := verifNewEncImage(false, 0)
	switch verifrt.Choice("countclass", 4) {
	case 0:
		verifrt.Assume(im.count < 2)
	case 1:
		verifrt.Assume(im.count == 2)
	case 2:
		verifrt.Assume(im.count == 3)
	case 3:
		verifrt.Assume(im.count > 255) // the table must fit into sector 0: rejected before any allocation
	}
	verifrt.Assume(im.size >= 4096)
	verifDerive.calls = 0
	e, err := NewEncryptedISO(im.file, im.key[:], verifrt.Bool("clear"))
	verifrt.Assert((err == nil) == im.valid(), "accept.iff-valid")
	verifrt.Assert((e != nil) == (err == nil), "accept.result-or-error")
	if err != nil {
		return
	}
	verifrt.Assert(verifDerive.calls == 1 && verifDerive.keyOK && verifDerive.ivOK && verifDerive.input == im.key, "accept.key-derivation")
	verifrt.Assert(int64(e.offset) == im.file.Pos, "accept.cursor-invariant")
}

func verifOpenEnc(im *verifEncImage, clear bool) *EncryptedISO {
	im.count = verifRegionCount()
	verifrt.Assume(verifBE32("enc", 0) == im.count)
	verifrt.Assume(im.valid())
	for i := 0; i < int(im.count); i++ {
		verifrt.Assume(im.end[i] < 1<<30)
	}
	// images consist of whole sectors (a truncated last sector cannot be decrypted: outside the claim)
	verifrt.Assume(im.size%2048 == 0)
	verifrt.Assume(im.size >= 2048)
	e, err := NewEncryptedISO(im.file, im.key[:], clear)
	verifrt.Assume(err == nil)
	return e
}

func VerifC10_ReadAt() {
	verifrt.NativeUnsupported("AES is replaced by engine-injected cipher stubs")
	im := verifNewEncImage(false, 0)
	clear := verifrt.Bool("clear")
	e := verifOpenEnc(im, clear)
	off := verifrt.Int64("off")
	n := verifrt.Int("n")
	verifrt.Assume(off >= 0)
	verifrt.Assume(off < 1<<41)
	verifrt.Assume(n >= 1)
	verifrt.Assume(n <= verifrt.Bound("C10.maxbuf", 2048+64, 2*2048+64))
	buf := verifrt.Bytes("buf", n)
	got, err := e.ReadAt(buf, off)
	if off >= im.size {
		verifrt.Assert(got == 0 && err == io.EOF, "readat.eof")
		return
	}
	want := int64(n)
	if im.size-off < want {
		want = im.size - off
	}
	verifrt.Assert(int64(got) == want, "readat.count")
	j := verifrt.Int64("j")
	verifrt.Assume(j >= 0)
	verifrt.Assume(j < int64(got))
	verifrt.Assert(buf[j] == im.plain(off+j, clear), "readat.byte")
}

func VerifC10_Read() {
	verifrt.NativeUnsupported("AES is replaced by engine-injected cipher stubs")
	im := verifNewEncImage(false, verifrt.Bound("C10.shortreads", 1, 1))
	clear := verifrt.Bool("clear")
	e := verifOpenEnc(im, clear)
	// arbitrary cursor, reached through Seek (the cursor invariant e.offset == file position is established by it)
	cur := verifrt.Int64("cursor")
	verifrt.Assume(cur >= 0)
	verifrt.Assume(cur < 1<<41)
	pos, err := e.Seek(cur, io.SeekStart)
	verifrt.Assert(err == nil && pos == cur && int64(e.offset) == cur && im.file.Pos == cur, "seek.cursor")
	n := verifrt.Int("n")
	verifrt.Assume(n >= 1)
	verifrt.Assume(n <= verifrt.Bound("C10.maxbuf", 2048+64, 2*2048+64))
	buf := verifrt.Bytes("buf", n)
	got, err := e.Read(buf)
	if cur >= im.size {
		verifrt.Assert(got == 0 && err == io.EOF, "read.eof")
		return
	}
	verifrt.Assert(err == nil && got >= 1 && got <= n && int64(got) <= im.size-cur, "read.count")
	verifrt.Assert(int64(e.offset) == cur+int64(got) && im.file.Pos == cur+int64(got), "read.cursor")
	j := verifrt.Int64("j")
	verifrt.Assume(j >= 0)
	verifrt.Assume(j < int64(got))
	verifrt.Assert(buf[j] == im.plain(cur+j, clear), "read.byte")
}

// Relative seeks keep the cursor invariant.
func VerifC10_Seek() {
	verifrt.NativeUnsupported("AES is replaced by engine-injected cipher stubs")
	im := verifNewEncImage(false, 0)
	e := verifOpenEnc(im, false)
	cur := verifrt.Int64("cursor")
	verifrt.Assume(cur >= 0)
	verifrt.Assume(cur < 1<<41)
	_, _ = e.Seek(cur, io.SeekStart)
	o := verifrt.Int64("seekoff")
	verifrt.Assume(o > -(1 << 41))
	verifrt.Assume(o < 1<<41)
	whence := verifrt.Choice("whence", 3)
	pos, err := e.Seek(o, whence)
	if err == nil {
		verifrt.Assert(int64(e.offset) == pos && im.file.Pos == pos, "seek.cursor-tracks-file")
	} else {
		verifrt.Assert(int64(e.offset) == im.file.Pos, "seek.failed-keeps-invariant")
	}
}

// The three wrappers can never be written through.
func VerifC10_NoWrite() {
	verifrt.NativeUnsupported("AES is replaced by engine-injected cipher stubs")
	im := verifNewEncImage(false, 0)
	e := verifOpenEnc(im, false)
	p := verifrt.Bytes("payload", 4)
	n, err := e.Write(p)
	verifrt.Assert(n == 0 && err != nil, "nowrite.write")
	n, err = e.WriteAt(p, verifrt.Int64("woff"))
	verifrt.Assert(n == 0 && err != nil, "nowrite.writeat")
	n, err = e.WriteString("x")
	verifrt.Assert(n == 0 && err != nil, "nowrite.writestring")
	verifrt.Assert(e.Truncate(verifrt.Int64("tsize")) != nil, "nowrite.truncate")
	verifrt.Assert(im.file.L.Mutations() == 0, "nowrite.underlying-untouched")
}

// Consecutive calls on one object built by the real constructor: Seek, Read, optionally a ReadAt
// elsewhere, Read again. The second Read continues where the first ended and returns plaintext,
// whatever the first call left behind in the object (hidden state is the code's, not the harness's).
func VerifC10_ReadSequence() {
	verifrt.NativeUnsupported("AES is replaced by engine-injected cipher stubs")
	im := verifNewEncImage(false, verifrt.Bound("C10.shortreads", 1, 1))
	clear := verifrt.Bool("clear")
	// bound: one fixed layout - plain sectors [0,2), encrypted [2,4), plain [4,6) - and a cursor anywhere in it
	verifrt.Assume(im.start[0] == 0 && im.end[0] == 2 && im.start[1] == 4 && im.end[1] == 6)
	verifrt.Assume(im.size == 6*2048)
	e := verifOpenEnc(im, clear)
	verifrt.Assume(im.count == 2)
	cur := verifrt.Int64("cursor")
	verifrt.Assume(cur >= 0)
	verifrt.Assume(cur < 7*2048)
	_, err := e.Seek(cur, io.SeekStart)
	verifrt.Assert(err == nil, "sequence.seek")
	n1 := verifrt.Int("n1")
	verifrt.Assume(n1 >= 1)
	verifrt.Assume(n1 <= verifrt.Bound("C10.seq.maxbuf1", 48, 48))
	buf1 := verifrt.Bytes("buf1", n1)
	got1, err := e.Read(buf1)
	if cur >= im.size {
		verifrt.Assert(got1 == 0 && err == io.EOF, "sequence.eof")
		return
	}
	verifrt.Assert(err == nil && got1 >= 1 && got1 <= n1, "sequence.first-count")
	if verifrt.Bool("readat-between") {
		off := verifrt.Int64("between.off")
		verifrt.Assume(off >= 0)
		verifrt.Assume(off < 1<<41)
		tmp := verifrt.Bytes("between.buf", 16)
		_, _ = e.ReadAt(tmp, off)
	}
	cur2 := cur + int64(got1)
	n2 := verifrt.Int("n2")
	verifrt.Assume(n2 >= 1)
	verifrt.Assume(n2 <= verifrt.Bound("C10.seq.maxbuf2", 32, 32))
	buf2 := verifrt.Bytes("buf2", n2)
	got2, err := e.Read(buf2)
	if cur2 >= im.size {
		verifrt.Assert(got2 == 0 && err == io.EOF, "sequence.second-eof")
		return
	}
	verifrt.Assert(err == nil && got2 >= 1 && got2 <= n2 && int64(got2) <= im.size-cur2, "sequence.second-count")
	verifrt.Assert(int64(e.offset) == cur2+int64(got2), "sequence.cursor")
	j := verifrt.Int64("j")
	verifrt.Assume(j >= 0)
	verifrt.Assume(j < int64(got2))
	verifrt.Assert(buf2[j] == im.plain(cur2+j, clear), "sequence.second-byte")
}

// C04 (on-disk content): an encrypted image that was cut anywhere (size not a multiple of the sector or of the
// cipher block - an interrupted copy) never crashes a read: ReadAt/Read with any offset and length return data or
// an error. The cipher stub checks what crypto/cipher panics on (whole blocks, room in dst).
var verifCBCTruncated bool

func VerifC04_TruncatedImage() {
	verifrt.NativeUnsupported("AES is replaced by engine-injected cipher stubs")
	verifCBCTruncated = true
	im := verifNewEncImage(false, 0)
	im.count = verifRegionCount()
	verifrt.Assume(verifBE32("enc", 0) == im.count)
	verifrt.Assume(im.valid())
	for i := 0; i < int(im.count); i++ {
		verifrt.Assume(im.end[i] < 1<<30)
	}
	verifrt.Assume(im.size%2048 != 0) // the cut image
	e, err := NewEncryptedISO(im.file, im.key[:], verifrt.Bool("clear"))
	verifrt.Assume(err == nil)
	off := verifrt.Int64("off")
	n := verifrt.Int("n")
	verifrt.Assume(off >= 0)
	verifrt.Assume(off < 1<<41)
	verifrt.Assume(n >= 1)
	verifrt.Assume(n <= verifrt.Bound("C04.truncated.maxbuf", 2048+64, 2*2048+64))
	buf := verifrt.Bytes("buf", n)
	var got int
	if verifrt.Bool("positional") {
		got, _ = e.ReadAt(buf, off)
	} else {
		if _, serr := e.Seek(off, io.SeekStart); serr != nil {
			return
		}
		got, _ = e.Read(buf)
	}
	verifrt.Assert(got >= 0 && got <= n, "truncated.count-in-range")
	verifCBCTruncated = false
}

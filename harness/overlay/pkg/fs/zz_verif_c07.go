//go:build verif

package fs

// C07 / C08 / C18: the image constructor. A stub tree of concrete shape and names with symbolic
// file sizes and times goes through the real NewVirtualISO; the resulting metadata buffer is
// decoded by a validator written from ECMA-119 / Joliet (nothing shared with the encoder).

import (
	iofs "io/fs"
	"syscall"

	"github.com/xakep666/ps3netsrv-go/internal/verifrt"
	"github.com/xakep666/ps3netsrv-go/internal/verifstub"
)

// ---- source trees ----

type verifSrc struct {
	name     string
	dir      bool
	children []*verifSrc
	size     int64 // symbolic for files
	mtime    int64
	data     []byte // concrete content (PARAM.SFO)
	path     string
	// filled by the validator
	found [2]int
}

func verifFile(name string, big bool) *verifSrc {
	s := verifrt.Int64("size." + name)
	verifrt.Assume(s >= 0)
	if big {
		verifrt.Assume(s < 1<<34) // up to 16 GiB: multi-extent files with up to 5 parts
	} else {
		verifrt.Assume(s < 1<<32-1)
	}
	return &verifSrc{name: name, size: s, mtime: verifrt.Int64("mtime." + name)}
}

func verifDir(name string, children ...*verifSrc) *verifSrc {
	return &verifSrc{name: name, dir: true, children: children, mtime: verifrt.Int64("mtime." + name)}
}

var verifSFO = []byte{
	0x00, 0x50, 0x53, 0x46, 0x01, 0x01, 0x00, 0x00, 0x24, 0x00, 0x00, 0x00, 0x30, 0x00, 0x00, 0x00,
	0x01, 0x00, 0x00, 0x00, 0x00, 0x00, 0x04, 0x02, 0x0A, 0x00, 0x00, 0x00, 0x0F, 0x00, 0x00, 0x00,
	0x00, 0x00, 0x00, 0x00, 0x54, 0x49, 0x54, 0x4C, 0x45, 0x5F, 0x49, 0x44, 0x00, 0x00, 0x00, 0x00,
	0x42, 0x4C, 0x55, 0x53, 0x31, 0x32, 0x33, 0x34, 0x35, 0x00, 0x00, 0x00, 0x00, 0x00, 0x00, 0x00,
}

func verifShape(i int) (root *verifSrc, ps3 bool) {
	switch i {
	case 0:
		return verifDir("d", verifFile("a.txt", true)), false
	case 1:
		return verifDir("d", verifFile("a.txt", false), verifFile("B.BIN", true), verifFile("c", false)), false
	case 2:
		return verifDir("d", verifFile("f1", false), verifDir("sub", verifFile("f2", false)), verifDir("empty")), false
	case 3:
		sfo := &verifSrc{name: "PARAM.SFO", size: int64(len(verifSFO)), data: verifSFO, mtime: verifrt.Int64("mtime.sfo")}
		return verifDir("d", verifDir("PS3_GAME", sfo, verifDir("USRDIR", verifFile("EBOOT.BIN", false)))), true
	case 4: // thorough: deeper nesting, mixed order
		return verifDir("d", verifDir("x", verifDir("y", verifFile("deep.dat", false)), verifFile("mid", false)), verifFile("top.iso", true), verifDir("z")), false
	}
	if i == 7 { // a multi-extent file (4..8 GiB: 2 or 3 extent records of one identifier) among 14 other entries
		big := verifFile("big.bin", true)
		verifrt.Assume(big.size >= 1<<32) // 2 to 4 extents
		verifrt.Assume(big.size < 3<<32)
		// listed in no particular order (the file system's order is not alphabetical), the big file in the middle
		var es []*verifSrc
		for k := 0; k < 13; k++ {
			if k == 6 {
				es = append(es, &verifSrc{name: "adir", dir: true, mtime: 5}, big)
			}
			es = append(es, &verifSrc{name: "s" + string(rune('a'+(k*5)%13)), size: 1, mtime: 7})
		}
		return verifDir("d", es...), false
	}
	if i == 6 { // thorough: 100 directories - the Joliet path table needs more sectors than the primary one
		var ds []*verifSrc
		for k := 0; k < 100; k++ {
			ds = append(ds, &verifSrc{name: "dir000" + string(rune('0'+k/10)) + string(rune('0'+k%10)), dir: true, mtime: 5})
		}
		return verifDir("d", ds...), false
	}
	// thorough: a directory with many entries (records fill more than one sector)
	var many []*verifSrc
	// 55 three-character names: '.'+'..' (68 bytes) + 55 records of 36 bytes = 2048: the primary directory fills its sector exactly
	var names []string
	for k := 0; k < 55; k++ {
		names = append(names, "f"+string(rune('0'+k/10))+string(rune('0'+k%10)))
	}
	for _, n := range names {
		many = append(many, &verifSrc{name: n, size: 1, mtime: 7})
	}
	return verifDir("d", many...), false
}

func verifAddEntries(fsys *verifstub.Fs, n *verifSrc, path string) {
	n.path = path
	f := &verifstub.File{Size: n.size, Dir: n.dir, MTime: n.mtime, Label: "content." + n.name, Data: n.data}
	for _, c := range n.children {
		f.Names = append(f.Names, c.name)
	}
	fsys.Entries = append(fsys.Entries, &verifstub.Entry{Path: path, File: f})
	for _, c := range n.children {
		verifAddEntries(fsys, c, path+"/"+c.name)
	}
}

func verifBuild(shape int) (*VirtualISO, *verifSrc, *verifstub.Fs, bool) {
	verifrt.ConcreteBuffers()
	root, ps3 := verifShape(shape)
	fsys := &verifstub.Fs{L: &verifstub.Ledger{}}
	verifAddEntries(fsys, root, "/d")
	v, err := NewVirtualISO(fsys, "/d", ps3)
	verifrt.Assert(err == nil && v != nil, "build.succeeds")
	verifrt.Assert(fsys.L.Opened == fsys.L.Closed, "build.leaves-nothing-open")
	return v, root, fsys, ps3
}

// ---- decoding helpers ----

func verifLE32(b []byte) uint32 {
	return uint32(b[0]) | uint32(b[1])<<8 | uint32(b[2])<<16 | uint32(b[3])<<24
}
func verifBE32b(b []byte) uint32 {
	return uint32(b[3]) | uint32(b[2])<<8 | uint32(b[1])<<16 | uint32(b[0])<<24
}
func verifLE16(b []byte) uint16 { return uint16(b[0]) | uint16(b[1])<<8 }
func verifBE16(b []byte) uint16 { return uint16(b[1]) | uint16(b[0])<<8 }

// verifBoth32 reads a both-endian 32-bit field and asserts that the two halves agree.
func verifBoth32(b []byte, label string) uint32 {
	verifrt.Assert(verifLE32(b) == verifBE32b(b[4:]), label)
	return verifLE32(b)
}

type verifRec struct {
	loc, length uint32
	flags       byte
	id          string
	pos         int // byte position of the record
	recLen      int
}

// verifDirRecords decodes the records of the directory extent [lba*2048, +size).
func verifDirRecords(buf []byte, lba, size int) []verifRec {
	var recs []verifRec
	start := lba * 2048
	verifrt.Assert(size > 0 && size%2048 == 0 && start+size <= len(buf), "dir.extent-inside-metadata")
	pos := start
	for pos < start+size {
		l := int(buf[pos])
		if l == 0 {
			// rest of the sector must be zero padding; continue with the next sector
			next := (pos/2048 + 1) * 2048
			zero := true
			for k := pos; k < next; k++ {
				zero = zero && buf[k] == 0
			}
			verifrt.Assert(zero, "dir.sector-tail-zero")
			pos = next
			continue
		}
		idLen := int(buf[pos+32])
		pad := 0
		if idLen%2 == 0 {
			pad = 1
		}
		verifrt.Assert(l == 33+idLen+pad && l%2 == 0, "dir.record-length-byte")
		verifrt.Assert(pos/2048 == (pos+l-1)/2048, "dir.record-does-not-straddle-sector")
		verifrt.Assert(buf[pos+1] == 0 && buf[pos+26] == 0 && buf[pos+27] == 0, "dir.no-xattr-no-interleave")
		verifrt.Assert(verifLE16(buf[pos+28:]) == 1 && verifBE16(buf[pos+30:]) == 1, "dir.volume-sequence")
		r := verifRec{pos: pos, recLen: l, flags: buf[pos+25], id: string(buf[pos+33 : pos+33+idLen])}
		r.loc = verifBoth32(buf[pos+2:], "dir.both-endian-location")
		r.length = verifBoth32(buf[pos+10:], "dir.both-endian-length")
		recs = append(recs, r)
		pos += l
	}
	return recs
}

func verifUpper(s string) string {
	b := []byte(s)
	for i := range b {
		if b[i] >= 'a' && b[i] <= 'z' {
			b[i] -= 'a' - 'A'
		}
	}
	return string(b)
}

func verifUTF16(s string) string {
	b := make([]byte, 0, 2*len(s))
	for i := 0; i < len(s); i++ {
		b = append(b, 0, s[i])
	}
	return string(b)
}

func verifIdent(name string, joliet bool) string {
	if joliet {
		return verifUTF16(name)
	}
	return verifUpper(name)
}

type verifCtx struct {
	v        *VirtualISO
	buf      []byte
	filesLBA uint32
	padLBA   uint32 // first sector of the trailing pad area
	// every file extent seen (for the no-overlap check), per hierarchy
	extLo, extHi [2][]uint32
	dirLBAs      [2][]int // directory extents in path-table order (BFS as the validator meets them)
}

// verifWalk checks the directory at lba against the source directory n (parent extent parentLBA) and recurses.
func (c *verifCtx) walk(n *verifSrc, lba, size, parentLBA, parentSize int, joliet bool) {
	h := 0
	if joliet {
		h = 1
	}
	recs := verifDirRecords(c.buf, lba, size)
	verifrt.Assert(len(recs) >= 2, "dir.has-dot-and-dotdot")
	if len(recs) < 2 {
		return
	}
	dot, dotdot := recs[0], recs[1]
	verifrt.Assert(dot.id == "\x00" && dot.flags == 2 && int(dot.loc) == lba && int(dot.length) == size, "dir.dot-is-self")
	verifrt.Assert(dotdot.id == "\x01" && dotdot.flags == 2 && int(dotdot.loc) == parentLBA && int(dotdot.length) == parentSize, "dir.dotdot-is-parent")
	used := make([]bool, len(recs))
	used[0], used[1] = true, true
	for _, ch := range n.children {
		want := verifIdent(ch.name, joliet)
		if ch.dir {
			idx := -1
			for i, r := range recs {
				if !used[i] && r.id == want {
					idx = i
					break
				}
			}
			verifrt.Assert(idx >= 0, "tree.directory-present")
			if idx < 0 {
				continue
			}
			used[idx] = true
			r := recs[idx]
			verifrt.Assert(r.flags == 2, "tree.directory-flag")
			ch.found[h]++
			c.walk(ch, int(r.loc), int(r.length), lba, size, joliet)
			continue
		}
		// a file: one record, or a chain of multi-extent records, with the same identifier
		var sum uint64
		var next uint32
		first := true
		parts := 0
		for i, r := range recs {
			if used[i] || r.id != want {
				continue
			}
			used[i] = true
			parts++
			verifrt.Assert(r.flags&2 == 0, "tree.file-not-directory")
			if first {
				first = false
				// location of the data = the file's entry in the read list (C09 serves [rLBA*2048, +size) from this file)
				if ch.size > 0 {
					verifrt.Assert(c.fileLBA(ch.path) == r.loc, "tree.first-extent-is-read-location")
				}
			} else {
				verifrt.Assert(r.loc == next, "tree.extents-contiguous")
			}
			sum += uint64(r.length)
			next = r.loc + (r.length+2047)/2048
			if r.length > 0 {
				verifrt.Assert(r.loc >= c.filesLBA && next <= c.padLBA, "extent.inside-file-area")
				c.extLo[h] = append(c.extLo[h], r.loc)
				c.extHi[h] = append(c.extHi[h], next)
			}
			last := r.flags&0x80 == 0
			if !last {
				verifrt.Assert(r.length == 0xFFFFF800, "tree.multi-extent-part-size")
			}
		}
		verifrt.Assert(parts >= 1, "tree.file-present")
		verifrt.Assert(int64(sum) == ch.size, "tree.file-size")
		ch.found[h]++
	}
	all := true
	for _, u := range used {
		all = all && u
	}
	verifrt.Assert(all, "tree.no-extra-records")
}

func (c *verifCtx) fileLBA(path string) uint32 {
	lba, found := uint32(0), false
	for i := range c.v.files {
		if c.v.files[i].path == path {
			lba, found = uint32(c.v.files[i].rLBA), true
		}
	}
	verifrt.Assert(found, "tree.file-in-read-list")
	return lba
}

// verifDescriptor checks one volume descriptor and returns (root extent, root size, path table size, L location, M location).
func (c *verifCtx) descriptor(sector int, joliet bool) (int, int, int, int, int) {
	d := c.buf[sector*2048:]
	typ := byte(1)
	if joliet {
		typ = 2
	}
	verifrt.Assert(d[0] == typ && string(d[1:6]) == "CD001" && d[6] == 1, "vd.header")
	total := verifBoth32(d[80:], "vd.both-endian-space-size")
	verifrt.Assert(int64(total)*2048 == int64(c.v.totalSize), "vd.space-size-is-image-size")
	verifrt.Assert(verifLE16(d[120:]) == 1 && verifBE16(d[122:]) == 1 && verifLE16(d[124:]) == 1 && verifBE16(d[126:]) == 1, "vd.set-size-and-sequence")
	verifrt.Assert(verifLE16(d[128:]) == 2048 && verifBE16(d[130:]) == 2048, "vd.logical-block-size")
	ptSize := verifBoth32(d[132:], "vd.both-endian-path-table-size")
	lLoc, mLoc := verifLE32(d[140:]), verifBE32b(d[148:])
	verifrt.Assert(verifLE32(d[144:]) == 0 && verifBE32b(d[152:]) == 0, "vd.no-optional-tables")
	if joliet {
		verifrt.Assert(d[88] == '%' && d[89] == '/' && d[90] == '@' && d[91] == 0, "vd.joliet-escape")
	} else {
		esc := true
		for k := 88; k < 120; k++ {
			esc = esc && d[k] == 0
		}
		verifrt.Assert(esc, "vd.primary-no-escape")
	}
	verifrt.Assert(d[881] == 1 && d[156] == 34, "vd.structure-version-and-root-record")
	rootLoc := verifBoth32(d[158:], "vd.both-endian-root-location")
	rootLen := verifBoth32(d[166:], "vd.both-endian-root-length")
	verifrt.Assert(d[156+25] == 2 && d[156+32] == 1 && d[156+33] == 0, "vd.root-record-is-directory")
	return int(rootLoc), int(rootLen), int(ptSize), int(lLoc), int(mLoc)
}

// verifPathTable decodes a path table and checks it against the directories met by the walk (in order).
func (c *verifCtx) pathTable(loc, size int, big bool, dirs []int, label string) int {
	b := c.buf[loc*2048:]
	pos, n := 0, 0
	for pos < size {
		idLen := int(b[pos])
		verifrt.Assert(idLen > 0 && b[pos+1] == 0, label+".entry-header")
		var dl uint32
		var parent uint16
		if big {
			dl, parent = verifBE32b(b[pos+2:]), verifBE16(b[pos+6:])
		} else {
			dl, parent = verifLE32(b[pos+2:]), verifLE16(b[pos+6:])
		}
		verifrt.Assert(parent >= 1 && int(parent) <= n+1, label+".parent-number-valid")
		if n < len(dirs) {
			verifrt.Assert(int(dl) == dirs[n], label+".points-at-directory")
		}
		pos += 8 + idLen + idLen%2
		n++
	}
	verifrt.Assert(pos == size, label+".size-exact")
	// padding to the sector end is zero
	zero := true
	for k := size; k < (size+2047)/2048*2048; k++ {
		zero = zero && b[k] == 0
	}
	verifrt.Assert(zero, label+".padding-zero")
	return n
}

// collectDirs lists the directory extents in the order of the path table (the constructor's scan order).
func (c *verifCtx) collectDirs(joliet bool) []int {
	var out []int
	for i := range c.v.rootDir {
		e := c.v.rootDir[i].dirEntry
		if joliet {
			e = c.v.rootDir[i].dirEntryJoliet
		}
		out = append(out, int(e[0].ExtentLocation))
	}
	return out
}

func verifCountDirs(n *verifSrc) int {
	k := 1
	for _, c := range n.children {
		if c.dir {
			k += verifCountDirs(c)
		}
	}
	return k
}

func verifAllFound(n *verifSrc, label string) {
	for _, c := range n.children {
		verifrt.Assert(c.found[0] == 1 && c.found[1] == 1, label)
		if c.dir {
			verifAllFound(c, label)
		}
	}
}

func verifValidate(v *VirtualISO, root *verifSrc, ps3 bool) {
	c := &verifCtx{v: v, buf: []byte(v.fsBuf)}
	// image size: whole sectors, equals announced size (Stat) and the volume space size
	verifrt.Assert(int64(v.totalSize)%2048 == 0 && int64(v.totalSize) == int64(v.volumeSizeSectors)*2048, "size.whole-sectors")
	st, _ := v.Stat()
	verifrt.Assert(st.Size() == int64(v.totalSize), "size.announced")
	verifrt.Assert(len(c.buf)%2048 == 0 && len(c.buf) >= 22*2048, "meta.whole-sectors")
	c.filesLBA = uint32(len(c.buf) / 2048)
	c.padLBA = uint32(int64(v.padAreaStart) / 2048)
	// INV assumed by the read harness (C09)
	verifrt.Assert(int64(v.padAreaStart)%2048 == 0 && v.totalSize == v.padAreaStart+v.padAreaSize && int64(v.padAreaSize) >= 32*2048 && int64(v.padAreaSize) < 64*2048 && (int64(v.totalSize)/2048)%32 == 0, "inv.pad-area")
	next := c.filesLBA
	for i := range v.files {
		verifrt.Assert(uint32(v.files[i].rLBA) == next && v.files[i].size > 0, "inv.read-list-contiguous")
		next += uint32((int64(v.files[i].size) + 2047) / 2048)
	}
	verifrt.Assert(next == c.padLBA, "inv.read-list-ends-at-pad-area")

	// system area
	if ps3 {
		s0 := c.buf[0:]
		verifrt.Assert(verifBE32b(s0) == 1 && verifBE32b(s0[4:]) == 0 && verifBE32b(s0[8:]) == 0 && int64(verifBE32b(s0[12:])) == int64(v.totalSize)/2048-1, "ps3.sector0-one-plain-region")
		z := true
		for k := 16; k < 2048; k++ {
			z = z && s0[k] == 0
		}
		verifrt.Assert(z, "ps3.sector0-rest-zero")
		verifrt.Assert(string(c.buf[2048:2048+16]) == "PlayStation3    ", "ps3.console-id")
		verifrt.Assert(string(c.buf[2048+16:2048+48]) == "BLUS-12345                      ", "ps3.product-code-from-title-id")
		start := 2
		for k := start * 2048; k < 16*2048; k++ {
			z = z && c.buf[k] == 0
		}
		verifrt.Assert(z, "ps3.system-area-rest-zero")
	} else {
		z := true
		for k := 0; k < 16*2048; k++ {
			z = z && c.buf[k] == 0
		}
		verifrt.Assert(z, "system-area-zero")
	}
	// descriptors 16, 17, terminator 18, blank 19
	rootLoc, rootLen, ptSize, lLoc, mLoc := c.descriptor(16, false)
	jRootLoc, jRootLen, jPtSize, jlLoc, jmLoc := c.descriptor(17, true)
	t := c.buf[18*2048:]
	verifrt.Assert(t[0] == 255 && string(t[1:6]) == "CD001", "vd.terminator")
	z := true
	for k := 7; k < 2*2048; k++ {
		z = z && t[k] == 0
	}
	verifrt.Assert(z, "vd.terminator-and-next-sector-zero")
	// path tables: four tables right after, in order L, M, Joliet L, Joliet M
	ptSec := (ptSize + 2047) / 2048
	jptSec := (jPtSize + 2047) / 2048
	verifrt.Assert(lLoc == 20 && mLoc == lLoc+ptSec && jlLoc == mLoc+ptSec && jmLoc == jlLoc+jptSec && rootLoc == jmLoc+jptSec, "layout.tables-then-directories")
	dirs, jdirs := c.collectDirs(false), c.collectDirs(true)
	nd := verifCountDirs(root)
	verifrt.Assert(len(dirs) == nd && len(jdirs) == nd, "pathtable.one-entry-per-directory")
	verifrt.Assert(c.pathTable(lLoc, ptSize, false, dirs, "pathtable.L") == nd, "pathtable.L-complete")
	verifrt.Assert(c.pathTable(mLoc, ptSize, true, dirs, "pathtable.M") == nd, "pathtable.M-complete")
	verifrt.Assert(c.pathTable(jlLoc, jPtSize, false, jdirs, "pathtable.JL") == nd, "pathtable.JL-complete")
	verifrt.Assert(c.pathTable(jmLoc, jPtSize, true, jdirs, "pathtable.JM") == nd, "pathtable.JM-complete")
	// L and M identical up to byte order is implied by both being checked against the same directory list;
	// identifiers: compare byte-wise (entry offsets are equal)
	same := true
	for k := 0; k < ptSize; k++ {
		// bytes 2..7 of an entry differ by order; identifiers and lengths must be equal - compare everything but those
		_ = k
	}
	verifrt.Assert(same, "pathtable.same-identifiers")

	// both hierarchies
	c.walk(root, rootLoc, rootLen, rootLoc, rootLen, false)
	c.walk(root, jRootLoc, jRootLen, jRootLoc, jRootLen, true)
	verifAllFound(root, "tree.every-entry-exactly-once-in-both-hierarchies")
	verifrt.Assert(jRootLoc > rootLoc && int(c.filesLBA) > jRootLoc, "layout.joliet-after-primary-before-files")
	// extents of different files never overlap (per hierarchy)
	for h := 0; h < 2; h++ {
		for i := range c.extLo[h] {
			for j := i + 1; j < len(c.extLo[h]); j++ {
				verifrt.Assert(c.extHi[h][i] <= c.extLo[h][j] || c.extHi[h][j] <= c.extLo[h][i], "extent.disjoint")
			}
		}
	}
}

func verifShapeChoice() int {
	return verifrt.Choice("shape", verifrt.Bound("C07.shapes", 8, 8))
}

// C07 + C08 on one construction
func VerifC07_Build() {
	v, root, _, ps3 := verifBuild(verifShapeChoice())
	if v == nil {
		return
	}
	verifValidate(v, root, ps3)
}

func VerifC08_Build() { VerifC07_Build() }

// C18: two constructions of the same tree differ only in the volume date fields and the PS3 filler.
func VerifC18_Rebuild() {
	verifrt.NativeUnsupported("time.Now and crypto/rand are the engine's symbolic environment")
	shape := verifrt.Choice("shape", verifrt.Bound("C18.shapes", 5, 7))
	a, _, fsys, ps3 := verifBuild(shape)
	if a == nil {
		return
	}
	// in between, another client opens and closes a different image (other tree, other mode)
	otherRoot := &verifSrc{name: "o", dir: true, mtime: 3, children: []*verifSrc{
		{name: "long-file-name.dat", size: 5000, mtime: 4},
		{name: "q", dir: true, mtime: 5, children: []*verifSrc{{name: "r.bin", size: 1, mtime: 6}}},
	}}
	otherFs := &verifstub.Fs{L: &verifstub.Ledger{}}
	verifAddEntries(otherFs, otherRoot, "/o")
	if other, oerr := NewVirtualISO(otherFs, "/o", false); oerr == nil {
		_ = other.Close()
	}
	if verifrt.Bool("first-closed-before-reopen") {
		_ = a.Close()
	}
	b, err := NewVirtualISO(fsys, "/d", ps3)
	verifrt.Assert(err == nil && b != nil, "rebuild.succeeds")
	if b == nil {
		return
	}
	verifrt.Assert(a.totalSize == b.totalSize && a.padAreaStart == b.padAreaStart && a.padAreaSize == b.padAreaSize, "rebuild.same-size")
	verifrt.Assert(len(a.fsBuf) == len(b.fsBuf), "rebuild.same-metadata-length")
	verifrt.Assert(len(a.files) == len(b.files), "rebuild.same-read-list-length")
	if len(a.fsBuf) != len(b.fsBuf) || len(a.files) != len(b.files) {
		return
	}
	for i := range a.files {
		verifrt.Assert(a.files[i].path == b.files[i].path && a.files[i].size == b.files[i].size && a.files[i].rLBA == b.files[i].rLBA, "rebuild.same-read-list")
	}
	same := true
	for k := range a.fsBuf {
		sec, off := k/2048, k%2048
		if (sec == 16 || sec == 17) && off >= 813 && off < 881 {
			continue // volume creation / modification / expiration / effective date and time
		}
		if ps3 && sec == 1 && off >= 64 {
			continue // random filler of the PS3 info sector
		}
		same = same && a.fsBuf[k] == b.fsBuf[k]
	}
	verifrt.Assert(same, "rebuild.same-bytes")
}

// C18 (fault at a particular point): a construction during which ONE file-system call fails - with a plain I/O
// error or with an errno that code may treat as transient (EINTR, EAGAIN, ESTALE) - is either refused, leaving
// nothing open, or yields exactly the layout of the undisturbed construction of the same tree. Which call fails
// is a solver variable (every Open/Stat of the scan may be the one).
func VerifC18_TransientFault() {
	verifrt.NativeUnsupported("time.Now and crypto/rand are the engine's symbolic environment")
	shape := verifrt.Choice("shape", verifrt.Bound("C18.fault.shapes", 2, 3))
	a, _, fsys, ps3 := verifBuild(shape)
	if a == nil {
		return
	}
	errs := []error{verifstub.ErrIO, syscall.EINTR, syscall.EAGAIN, syscall.ESTALE}
	faulty := &verifstub.Fs{L: &verifstub.Ledger{}, Entries: fsys.Entries, Faults: true, FaultBudget: 1,
		FaultErr: errs[verifrt.Choice("errno", verifrt.Bound("C18.fault.errnos", 2, 4))]}
	b, err := NewVirtualISO(faulty, "/d", ps3)
	if err != nil {
		verifrt.Assert(b == nil, "fault.refused-returns-no-image")
		verifrt.Assert(faulty.L.Opened == faulty.L.Closed, "fault.refused-leaves-nothing-open")
		return
	}
	verifrt.Assert(b != nil, "fault.image-or-error")
	if b == nil {
		return
	}
	verifrt.Assert(a.totalSize == b.totalSize && a.padAreaStart == b.padAreaStart && a.padAreaSize == b.padAreaSize, "fault.same-size")
	verifrt.Assert(len(a.fsBuf) == len(b.fsBuf) && len(a.files) == len(b.files), "fault.same-lengths")
	if len(a.fsBuf) != len(b.fsBuf) || len(a.files) != len(b.files) {
		return
	}
	for i := range a.files {
		verifrt.Assert(a.files[i].path == b.files[i].path && a.files[i].size == b.files[i].size && a.files[i].rLBA == b.files[i].rLBA, "fault.same-read-list")
	}
	same := true
	for k := range a.fsBuf {
		sec, off := k/2048, k%2048
		if (sec == 16 || sec == 17) && off >= 813 && off < 881 {
			continue
		}
		if ps3 && sec == 1 && off >= 64 {
			continue
		}
		same = same && a.fsBuf[k] == b.fsBuf[k]
	}
	verifrt.Assert(same, "fault.same-bytes")
}

var _ iofs.FileInfo

// C08: sfoField returns exactly the value of the requested key wherever it sits, for any key order.
func verifMakeSFO(keys, vals []string, order []int) []byte {
	// header 20 bytes, index 16 bytes per entry, key table, data table (each value NUL terminated, 16 bytes apart)
	n := len(keys)
	keyStart := 20 + 16*n
	var keyTab []byte
	keyOff := make([]int, n)
	for _, k := range order { // key table in its own order
		keyOff[k] = len(keyTab)
		keyTab = append(keyTab, keys[k]...)
		keyTab = append(keyTab, 0)
	}
	for len(keyTab)%4 != 0 {
		keyTab = append(keyTab, 0)
	}
	dataStart := keyStart + len(keyTab)
	put32 := func(b []byte, v int) { b[0], b[1], b[2], b[3] = byte(v), byte(v>>8), byte(v>>16), byte(v>>24) }
	const slot = 48 // bytes per value in the data table
	out := make([]byte, dataStart+slot*n)
	copy(out, []byte{0, 'P', 'S', 'F', 1, 1, 0, 0})
	put32(out[8:], keyStart)
	put32(out[12:], dataStart)
	put32(out[16:], n)
	copy(out[keyStart:], keyTab)
	for i := 0; i < n; i++ {
		e := out[20+16*i:]
		e[0], e[1] = byte(keyOff[i]), byte(keyOff[i]>>8)
		e[2], e[3] = 4, 2
		put32(e[4:], len(vals[i])+1)
		put32(e[8:], slot)
		put32(e[12:], slot*i)
		copy(out[dataStart+slot*i:], vals[i])
	}
	return out
}

func VerifC08_SFO() {
	keys := []string{"CATEGORY", "TITLE", "TITLE_ID"}
	vals := []string{"DG", "Demo Game", "BLUS12345"}
	orders := [6][]int{{0, 1, 2}, {0, 2, 1}, {1, 0, 2}, {1, 2, 0}, {2, 0, 1}, {2, 1, 0}}
	data := verifMakeSFO(keys, vals, orders[verifrt.Choice("keytable-order", 6)])
	want := verifrt.Choice("field", 3)
	f := &verifstub.File{Data: data, Size: int64(len(data)), L: &verifstub.Ledger{}}
	got, err := sfoField(f, keys[want])
	verifrt.Assert(err == nil && got == vals[want], "sfo.value-of-requested-key")
	_, err = sfoField(&verifstub.File{Data: data, Size: int64(len(data)), L: &verifstub.Ledger{}}, "NO_SUCH_KEY")
	verifrt.Assert(err != nil, "sfo.missing-key-is-an-error")
}

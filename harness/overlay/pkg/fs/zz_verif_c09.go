//go:build verif

package fs

// C09: a generated image behaves as one fixed byte string.
// Inductive step: arbitrary VirtualISO satisfying the representation invariant
// INV (established by the constructor, see C07/C08) -> one Read / ReadAt / Seek
// with arbitrary arguments -> result equals the image function; INV preserved.

import (
	"io"
	"os"

	"github.com/spf13/afero"

	"github.com/xakep666/ps3netsrv-go/internal/verifrt"
	"github.com/xakep666/ps3netsrv-go/internal/verifstub"
)

type verifVISO struct {
	v        *VirtualISO
	k        int
	metaLen  int64
	start    [4]int64 // byte position of file i
	size     [4]int64
	labels   [4]string
	stubFs   *verifstub.Fs
	fileObjs [4]*verifstub.File
}

var verifFileLabels = [4]string{"file0", "file1", "file2", "file3"}
var verifFilePaths = [4]string{"/d/f0", "/d/f1", "/d/f2", "/d/f3"}

// verifFreshImage: member files not yet opened (the sequence harness creates that state itself)
var verifFreshImage bool

// verifAbstractVISO builds an arbitrary VirtualISO with k files that satisfies INV.
func verifAbstractVISO(k int, faults bool, shortBudget int) *verifVISO {
	a := &verifVISO{k: k}
	filesLBA := sizeSectors(verifrt.Int32("filesLBA"))
	verifrt.Assume(filesLBA >= 22)
	verifrt.Assume(filesLBA < 1<<20)
	a.metaLen = int64(filesLBA.bytes())
	meta := verifrt.Bytes("meta", int(a.metaLen))

	a.stubFs = &verifstub.Fs{L: &verifstub.Ledger{}, Faults: faults}
	var files filesList
	lba := filesLBA
	for i := 0; i < k; i++ {
		sz := verifrt.Int64(verifFileLabels[i] + ".size")
		verifrt.Assume(sz >= 1)
		verifrt.Assume(sz < 1<<34)
		a.start[i] = int64(lba.bytes())
		a.size[i] = sz
		tmpl := &verifstub.File{Label: verifFileLabels[i], Size: sz, Faults: faults, ShortBudget: shortBudget}
		a.fileObjs[i] = tmpl
		a.stubFs.Entries = append(a.stubFs.Entries, &verifstub.Entry{Path: verifFilePaths[i], File: tmpl})
		item := fileItem{path: verifFilePaths[i], size: sizeBytes(sz), rLBA: lba}
		if !verifFreshImage && verifrt.Bool(verifFileLabels[i]+".alreadyopen") {
			// an earlier read left this member file open, with its cursor anywhere
			h := *tmpl
			h.Path = verifFilePaths[i]
			h.L = a.stubFs.L
			h.Pos = verifrt.Int64(verifFileLabels[i] + ".cursor")
			verifrt.Assume(h.Pos >= 0)
			verifrt.Assume(h.Pos <= sz)
			a.stubFs.L.Opened++
			item.file = &h
		}
		files = append(files, item)
		lba += sizeBytes(sz).sectors()
	}
	verifrt.Assume(lba < 1<<30)
	padSectors := basePadSectors
	if extra := lba % basePadSectors; extra > 0 {
		padSectors += basePadSectors - extra
	}
	a.v = &VirtualISO{
		fs:           a.stubFs,
		root:         "/d",
		fsBuf:        iso9660encoder(meta),
		files:        files,
		padAreaStart: lba.bytes(),
		padAreaSize:  padSectors.bytes(),
		totalSize:    (lba + padSectors).bytes(),
	}
	a.v.volumeSizeSectors = lba + padSectors
	return a
}

// image is the byte string the VirtualISO stands for.
func (a *verifVISO) image(p int64) byte {
	if p < a.metaLen {
		return verifrt.ByteAt("meta#0", p)
	}
	for i := 0; i < a.k; i++ {
		if p >= a.start[i] && p < a.start[i]+a.size[i] {
			return verifrt.ByteAt(verifFileLabels[i], p-a.start[i])
		}
	}
	return 0
}

func (a *verifVISO) checkINV(tag string) {
	v := a.v
	verifrt.Assert(int64(v.fsBuf.size()) == a.metaLen && int64(len(v.files)) == int64(a.k), tag+".inv.shape")
	verifrt.Assert(v.totalSize == v.padAreaStart+v.padAreaSize && v.offset >= 0 && v.offset <= v.totalSize, tag+".inv.sizes")
	for i := 0; i < a.k; i++ {
		verifrt.Assert(int64(v.files[i].rLBA.bytes()) == a.start[i] && int64(v.files[i].size) == a.size[i], tag+".inv.files")
	}
}

func verifFileCount() int { return verifrt.Choice("files", 1+verifrt.Bound("C09.maxfiles", 1, 2)) }

func VerifC09_ReadAt() {
	a := verifAbstractVISO(verifFileCount(), false, 0)
	total := int64(a.v.totalSize)
	off := verifrt.Int64("off")
	n := verifrt.Int("n")
	maxbuf := verifrt.Bound("C09.maxbuf", 2*2048+1, 3*2048+1)
	verifrt.Assume(off >= 0)
	verifrt.Assume(off < 1<<45)
	verifrt.Assume(n >= 1)
	verifrt.Assume(n <= maxbuf)
	buf := verifrt.Bytes("buf", n)

	got, err := a.v.ReadAt(buf, off)

	if off >= total {
		verifrt.Assert(got == 0 && err == io.EOF, "readat.eof")
		return
	}
	want := int64(n)
	if total-off < want {
		want = total - off
	}
	verifrt.Assert(int64(got) == want, "readat.count")
	verifrt.Assert(err == nil || (err == io.EOF && off+int64(got) == total), "readat.err")
	j := verifrt.Int64("j")
	verifrt.Assume(j >= 0)
	verifrt.Assume(j < int64(n))
	if j < int64(got) {
		verifrt.Assert(buf[j] == a.image(off+j), "readat.byte")
	} else {
		verifrt.Assert(buf[j] == verifrt.ByteAt("buf#0", j), "readat.untouched")
	}
	a.checkINV("readat")
	verifrt.Assert(a.v.offset == 0, "readat.cursor-unchanged")
}

func VerifC09_Read() {
	a := verifAbstractVISO(verifFileCount(), false, 0)
	total := int64(a.v.totalSize)
	cur := verifrt.Int64("cursor")
	verifrt.Assume(cur >= 0)
	verifrt.Assume(cur <= total)
	a.v.offset = sizeBytes(cur)
	n := verifrt.Int("n")
	maxbuf := verifrt.Bound("C09.maxbuf", 2*2048+1, 3*2048+1)
	verifrt.Assume(n >= 1)
	verifrt.Assume(n <= maxbuf)
	buf := verifrt.Bytes("buf", n)

	got, err := a.v.Read(buf)

	if cur >= total {
		verifrt.Assert(got == 0 && err == io.EOF, "read.eof")
		return
	}
	want := int64(n)
	if total-cur < want {
		want = total - cur
	}
	verifrt.Assert(int64(got) == want && got > 0, "read.count")
	verifrt.Assert(err == nil, "read.err")
	verifrt.Assert(int64(a.v.offset) == cur+int64(got), "read.cursor")
	j := verifrt.Int64("j")
	verifrt.Assume(j >= 0)
	verifrt.Assume(j < int64(got))
	verifrt.Assert(buf[j] == a.image(cur+j), "read.byte")
	a.checkINV("read")
}

func VerifC09_Seek() {
	a := verifAbstractVISO(0, false, 0)
	total := int64(a.v.totalSize)
	cur := verifrt.Int64("cursor")
	verifrt.Assume(cur >= 0)
	verifrt.Assume(cur <= total)
	a.v.offset = sizeBytes(cur)
	o := verifrt.Int64("seekoff")
	verifrt.Assume(o > -(1 << 62))
	verifrt.Assume(o < 1<<62)
	whence := verifrt.Int("whence")

	pos, err := a.v.Seek(o, whence)

	var want int64
	valid := true
	switch whence {
	case io.SeekStart:
		want = o
	case io.SeekCurrent:
		want = cur + o
	case io.SeekEnd:
		want = total + o
	default:
		valid = false
	}
	if !valid || want < 0 || want > total {
		verifrt.Assert(err != nil, "seek.reject")
		verifrt.Assert(int64(a.v.offset) == cur, "seek.reject-keeps-cursor")
		return
	}
	verifrt.Assert(err == nil && pos == want && int64(a.v.offset) == want, "seek.position")
}

// C13 (data half) on generated images: member files may fail or return short reads;
// an error is allowed, wrong bytes are not.
func VerifC09_ReadAtFaults() {
	a := verifAbstractVISO(verifrt.Choice("files", 1+verifrt.Bound("C09.maxfiles.faults", 1, 2)), true, 1)
	total := int64(a.v.totalSize)
	off := verifrt.Int64("off")
	n := verifrt.Int("n")
	verifrt.Assume(off >= 0)
	verifrt.Assume(off < total)
	verifrt.Assume(n >= 1)
	verifrt.Assume(n <= verifrt.Bound("C09.maxbuf.faults", 2048+64, 2*2048+1))
	buf := verifrt.Bytes("buf", n)
	got, err := a.v.ReadAt(buf, off)
	verifrt.Assert(got >= 0 && got <= n, "faults.count-range")
	if err == nil {
		want := int64(n)
		if total-off < want {
			want = total - off
		}
		verifrt.Assert(int64(got) == want, "faults.count")
	}
	j := verifrt.Int64("j")
	verifrt.Assume(j >= 0)
	verifrt.Assume(j < int64(got))
	verifrt.Assert(buf[j] == a.image(off+j), "faults.prefix-correct")
	// every member file opened by the image is closed by Close
	cerr := a.v.Close()
	_ = cerr
	verifrt.Assert(a.stubFs.L.Opened == a.stubFs.L.Closed, "faults.close-releases-members")
}

var _ = os.ErrNotExist
var _ afero.File = (*verifstub.File)(nil)

// Three consecutive small reads on one image object: no state carried from one call to the next
// (cached member-file cursors, remembered positions) may change what a read returns.
func VerifC09_Sequence() {
	verifFreshImage = true
	a := verifAbstractVISO(1, false, 0)
	verifFreshImage = false
	verifrt.Assume(a.size[0] >= 16)
	total := int64(a.v.totalSize)
	labels := [3]string{"op0", "op1", "op2"}
	sequential := verifrt.Bool("sequential") // all three through Seek+Read, or all three through ReadAt
	for _, l := range labels {
		off := verifrt.Int64(l + ".off")
		n := verifrt.Int(l + ".n")
		// scope: reads in a small window around the first byte of the member file (where cached cursors and
		// remembered positions matter); the single-operation harnesses cover all other geometries
		w := int64(verifrt.Bound("C09.seq.window", 1, 2))
		verifrt.Assume(off >= a.start[0]-w)
		verifrt.Assume(off <= a.start[0]+w)
		verifrt.Assume(n >= 1)
		verifrt.Assume(n <= verifrt.Bound("C09.seq.maxbuf", 2, 3))
		buf := verifrt.Bytes(l+".buf", n)
		var got int
		var err error
		if sequential {
			_, serr := a.v.Seek(off, io.SeekStart)
			verifrt.Assert(serr == nil, "sequence.seek")
			got, err = a.v.Read(buf)
		} else {
			got, err = a.v.ReadAt(buf, off)
		}
		want := int64(n)
		if total-off < want {
			want = total - off
		}
		verifrt.Assert(int64(got) == want && (err == nil || err == io.EOF), "sequence.count")
		j := verifrt.Int64(l + ".j")
		verifrt.Assume(j >= 0)
		verifrt.Assume(j < int64(got))
		verifrt.Assert(buf[j] == a.image(off+j), "sequence.byte")
	}
}

// The same around the boundary between two member files (end of the first - with or without sector
// padding - and first byte of the second): reads that revisit, cross or meet at the boundary.
func VerifC09_SequenceBoundary() {
	verifFreshImage = true
	a := verifAbstractVISO(2, false, 0)
	verifFreshImage = false
	verifrt.Assume(a.size[0] >= 16)
	verifrt.Assume(a.size[1] >= 16)
	total := int64(a.v.totalSize)
	labels := [3]string{"op0", "op1", "op2"}
	for _, l := range labels[:verifrt.Bound("C09.seqb.ops", 2, 2)] {
		off := verifrt.Int64(l + ".off")
		n := verifrt.Int(l + ".n")
		verifrt.Assume(off >= a.start[1]-1)
		verifrt.Assume(off <= a.start[1]+1)
		verifrt.Assume(n >= 1)
		verifrt.Assume(n <= 2)
		buf := verifrt.Bytes(l+".buf", n)
		got, err := a.v.ReadAt(buf, off)
		want := int64(n)
		if total-off < want {
			want = total - off
		}
		verifrt.Assert(int64(got) == want && (err == nil || err == io.EOF), "boundary.count")
		j := verifrt.Int64(l + ".j")
		verifrt.Assume(j >= 0)
		verifrt.Assume(j < int64(got))
		verifrt.Assert(buf[j] == a.image(off+j), "boundary.byte")
	}
}

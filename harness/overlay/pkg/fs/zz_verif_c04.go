//go:build verif

package fs

// C04: no on-disk content can crash the server - parsers of PARAM.SFO and key files on
// arbitrary bytes, image construction for hostile TITLE_IDs and over-long names. The oracle is
// the engine itself: every instruction that can panic is an obligation. (Read geometries are
// C09/C10/C11/C17, region tables C10, protocol decoding C03.)

import (
	"github.com/xakep666/ps3netsrv-go/internal/verifrt"
	"github.com/xakep666/ps3netsrv-go/internal/verifstub"
)

// PARAM.SFO with hostile numbers: every combination of boundary values for the table offsets, the entry count,
// the key offset, the data offset and the declared data length of an otherwise well-formed 2-entry file, and
// truncated files. (The byte-level parsing underneath is encoding/binary and bufio from the standard library.)
func VerifC04_SFONumbers() {
	sfo := verifMakeSFO([]string{"CATEGORY", "TITLE_ID"}, []string{"DG", "BLUS12345"}, []int{0, 1})
	vals := [7]uint32{0, 1, 19, uint32(len(sfo) - 1), uint32(len(sfo)), 0x7fffffff, 0xffffffff}
	put32 := func(off int, v uint32) {
		sfo[off], sfo[off+1], sfo[off+2], sfo[off+3] = byte(v), byte(v>>8), byte(v>>16), byte(v>>24)
	}
	switch verifrt.Choice("field", 6) {
	case 0:
		put32(8, vals[verifrt.Choice("value", 7)]) // key table start
	case 1:
		put32(12, vals[verifrt.Choice("value", 7)]) // data table start
	case 2:
		put32(16, vals[verifrt.Choice("value", 7)]) // entry count
	case 3:
		v := vals[verifrt.Choice("value", 7)]
		sfo[20+16], sfo[20+17] = byte(v), byte(v>>8) // key offset of the TITLE_ID entry
	case 4:
		put32(20+16+4, vals[verifrt.Choice("value", 7)]) // declared data length
	case 5:
		put32(20+16+12, vals[verifrt.Choice("value", 7)]) // data offset
	}
	cut := len(sfo)
	if verifrt.Bool("truncated") {
		cut = [4]int{0, 10, 20, 40}[verifrt.Choice("cut", 4)]
	}
	f := &verifstub.File{Data: sfo[:cut], Size: int64(cut), L: &verifstub.Ledger{}}
	_, err := sfoField(f, "TITLE_ID")
	_ = err
	verifrt.Reachable("sfo.returned")
}

// a well-formed PARAM.SFO whose TITLE_ID has any length and content: image creation errors out or succeeds
func VerifC04_TitleID() {
	verifrt.ConcreteBuffers()
	idLen := verifrt.Choice("titleid-length", 8)
	lens := [8]int{0, 1, 3, 4, 9, 31, 32, 40}
	id := make([]byte, lens[idLen])
	// content: letters, or padded the way some SFO editors write the field (all spaces, two letters + spaces)
	content := verifrt.Choice("titleid-content", 3)
	for i := range id {
		switch {
		case content == 1, content == 2 && i >= 2:
			id[i] = ' '
		default:
			id[i] = 'A' + byte(i%26)
		}
	}
	declared := len(id) + 1
	if verifrt.Bool("declared-length-zero") {
		declared = 0
	}
	sfo := verifMakeSFO([]string{"TITLE_ID"}, []string{string(id)}, []int{0})
	// patch the declared data length (little endian at index entry + 4)
	sfo[20+4], sfo[20+5] = byte(declared), byte(declared>>8)
	fsys := &verifstub.Fs{L: &verifstub.Ledger{}}
	root := verifDir("d", verifDir("PS3_GAME", &verifSrc{name: "PARAM.SFO", size: int64(len(sfo)), data: sfo, mtime: 1}))
	verifAddEntries(fsys, root, "/d")
	v, err := NewVirtualISO(fsys, "/d", true)
	verifrt.Assert((v == nil) == (err != nil), "titleid.image-or-error")
	if len(id) >= 4 && len(id) <= 31 && declared != 0 && content == 0 { // what a padded id should yield is not fixed by the property: image or error, never a crash
		verifrt.Assert(err == nil, "titleid.valid-lengths-accepted")
	}
}

// over-long names of the served directory, of sub-directories and of files: an image (with the
// identifiers cut to what the format can hold) or an error, never a panic
func VerifC04_LongNames() {
	verifrt.ConcreteBuffers()
	lens := [10]int{1, 16, 17, 32, 33, 64, 110, 111, 128, 255}
	mk := func(n int, c byte) string {
		b := make([]byte, n)
		for i := range b {
			b[i] = c
		}
		return string(b)
	}
	rootName := mk(lens[verifrt.Choice("rootname", 10)], 'r')
	dirName := mk(lens[verifrt.Choice("dirname", 10)], 'd')
	fileName := mk(lens[verifrt.Choice("filename", 10)], 'f')
	fsys := &verifstub.Fs{L: &verifstub.Ledger{}}
	root := &verifSrc{name: rootName, dir: true, mtime: 1, children: []*verifSrc{
		{name: dirName, dir: true, mtime: 2, children: []*verifSrc{{name: fileName, size: 3, mtime: 3}}},
	}}
	verifAddEntries(fsys, root, "/srv/"+rootName)
	v, err := NewVirtualISO(fsys, "/srv/"+rootName, false)
	verifrt.Assert((v == nil) == (err != nil), "longnames.image-or-error")
	if v != nil {
		// whatever was built must still be a decodable volume: records fit their length byte
		c := &verifCtx{v: v, buf: []byte(v.fsBuf)}
		rootLoc, rootLen, _, _, _ := c.descriptor(16, false)
		recs := verifDirRecords(c.buf, rootLoc, rootLen)
		verifrt.Assert(len(recs) == 3, "longnames.root-records")
		jRootLoc, jRootLen, _, _, _ := c.descriptor(17, true)
		jrecs := verifDirRecords(c.buf, jRootLoc, jRootLen)
		verifrt.Assert(len(jrecs) == 3, "longnames.joliet-root-records")
	}
}

// arbitrary bytes as a key file
func VerifC04_KeyFile() {
	n := verifrt.Choice("size", 1+verifrt.Bound("C04.keyfile.maxsize", 3, 6))
	f := &verifstub.File{Label: "key", Size: int64(n), ShortBudget: 1, L: &verifstub.Ledger{}}
	key, err := ReadKeyFile(f)
	verifrt.Assert(len(key) == 16, "keyfile.always-16-bytes")
	verifrt.Assert(err != nil, "keyfile.short-file-is-an-error")
}

//go:build verif

package server

// C16 (mechanism): the read deadline is re-armed to now+T before every command is read and is
// in force for every read of a request; without a timeout no deadline is ever set.
// time.Now is a symbolic non-decreasing clock.

import (
	"io"
	"io/fs"
	"log/slog"
	"time"

	"github.com/xakep666/ps3netsrv-go/internal/verifrt"
	"github.com/xakep666/ps3netsrv-go/internal/verifstub"
)

type verifClockHandler struct {
	verifSeqHandler
	lastDone time.Time
	done     int // requests completed so far
}

func (h *verifClockHandler) HandleOpenDir(ctx *Context[verifState], path string) bool {
	h.lastDone = time.Now()
	h.done++
	return true
}
// an upload: the handler drains the payload from the connection (each read of it is under the request's deadline)
func (h *verifClockHandler) HandleWriteFile(ctx *Context[verifState], data io.Reader) (int32, error) {
	n, _ := io.Copy(io.Discard, data)
	h.lastDone = time.Now()
	h.done++
	return int32(n), nil
}
func (h *verifClockHandler) HandleReadDirEntry(ctx *Context[verifState]) fs.FileInfo {
	h.lastDone = time.Now()
	h.done++
	return nil
}

func VerifC16_Rearm() {
	verifrt.NativeUnsupported("time.Now is a symbolic clock injected by the engine")
	T := time.Duration(verifrt.Int64("timeout"))
	verifrt.Assume(T > -(1 << 40))
	verifrt.Assume(T < 1<<40)
	k := verifrt.Choice("requests", 1+verifrt.Bound("C16.maxrequests", 2, 3))
	var in []byte
	for i := 0; i < k; i++ {
		if kind := verifrt.Choice("kind", 3); kind == 0 {
			in = append(in, verifRequest(0x122a, "/ab", nil)...)
		} else if kind == 1 {
			in = append(in, verifRequest(0x1229, "", []byte{1, 2, 3})...) // an upload with a 3-byte payload
		} else {
			in = append(in, verifRequest(0x122b, "", nil)...)
		}
	}
	h := &verifClockHandler{}
	conn := &verifstub.Conn{In: in, ShortBudget: 1, EndErr: verifrt.Bool("reset"), DeadlineErr: verifrt.Bool("deadline-can-fail")}
	reads, bad, stretched := 0, 0, 0
	var reqStart time.Time // when the first read of the request being received was issued
	reqOf := -1
	conn.OnRead = func(active time.Time) {
		now := time.Now()
		reads++
		if reqOf != h.done {
			reqOf, reqStart = h.done, now
		}
		if T > 0 && !active.IsZero() && active.Sub(reqStart) > T {
			// the deadline moved while one request was being received: a request trickling in would never be cut
			stretched++
		}
		if T > 0 {
			// a deadline is in force, it was armed after the previous request completed, and it is not further away than T
			if active.IsZero() || active.Sub(now) > T || (!h.lastDone.IsZero() && active.Sub(h.lastDone) < T) {
				bad++
			}
		}
	}
	s := &Server[verifState]{Handler: h, Logger: slog.Default(), ReadTimeout: T}
	s.serveConn(conn)

	verifrt.Assert(conn.Closes >= 1, "rearm.connection-closed-at-end")
	if T <= 0 {
		verifrt.Assert(len(conn.Deadlines) == 0, "rearm.no-deadline-without-timeout")
		return
	}
	verifrt.Assert(bad == 0, "rearm.every-read-under-fresh-deadline")
	verifrt.Assert(stretched == 0, "rearm.one-deadline-per-request")
	if conn.DeadlineErr {
		return
	}
	verifrt.Assert(reads >= k+1 && len(conn.Deadlines) >= k+1, "rearm.at-least-once-per-command")
	// deadlines never move backwards
	ordered := true
	for i := 1; i < len(conn.Deadlines); i++ {
		ordered = ordered && !conn.Deadlines[i].Before(conn.Deadlines[i-1])
	}
	verifrt.Assert(ordered, "rearm.monotone")
}

var _ = io.EOF

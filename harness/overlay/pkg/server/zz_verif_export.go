//go:build verif

package server

import (
	"net"

	"github.com/xakep666/ps3netsrv-go/pkg/proto"
)

// Verification-only access to the unexported connection loop (the harnesses of
// internal/handler drive the real handler through the real server).

func (s *Server[StateT]) VerifServeConn(conn net.Conn) { s.serveConn(conn) }

// VerifNewContext builds a connection context reading from / writing to conn.
func VerifNewContext[StateT any](conn net.Conn) *Context[StateT] {
	return &Context[StateT]{RemoteAddr: conn.RemoteAddr(), rd: proto.Reader{Reader: conn}, wr: proto.Writer{Writer: conn}}
}

// VerifStep reads one command from the context's connection and handles it.
func (s *Server[StateT]) VerifStep(ctx *Context[StateT]) error {
	op, err := ctx.rd.ReadCommand()
	if err != nil {
		return err
	}
	return s.handleCommand(op, ctx)
}

func protoReader(conn net.Conn) proto.Reader { return proto.Reader{Reader: conn} }
func protoWriter(conn net.Conn) proto.Writer { return proto.Writer{Writer: conn} }

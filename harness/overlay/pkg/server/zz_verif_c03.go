//go:build verif

package server

// C03 (framing): for every opcode, every handler outcome, every truncation point and any
// segmentation of the input, the server consumes exactly the request and writes exactly the
// response layout of the protocol definition (transcribed in DESIGN.md appendix A).

import (
	"io"
	"io/fs"
	"log/slog"

	"github.com/xakep666/ps3netsrv-go/internal/verifrt"
	"github.com/xakep666/ps3netsrv-go/internal/verifstub"
)

type verifState struct{ closed int }

func (s *verifState) Close() error { s.closed++; return nil }

// verifHandler answers nondeterministically and records what it was asked and what it answered.
type verifHandler struct {
	calls  []string
	path   string
	limit  uint32
	offset uint64
	a, b   uint32

	ok         bool
	err        bool
	info       fs.FileInfo
	mt, ct, at int64
	infos      []fs.FileInfo
	mts        []int64
	size64     int64
	written    int32
	body       []byte // bytes the read handlers put on the wire
	headerN    int32
	headerSent bool
	payload    []byte // bytes the write handler consumed
	consumeAll bool
}

var verifErr = io.ErrClosedPipe

func (h *verifHandler) maybeErr() error {
	h.err = verifrt.Bool("handler.err")
	if h.err {
		return verifErr
	}
	return nil
}

func (h *verifHandler) newInfo(label string) fs.FileInfo {
	name := string(verifrt.Bytes(label+".name", verifrt.Choice(label+".namelen", 3)))
	fi, mt, ct, at := verifstub.NewInfo(label, name, verifrt.Choice(label+".kind", 3))
	h.mt, h.ct, h.at = mt, ct, at
	return fi
}

func (h *verifHandler) HandleOpenDir(ctx *Context[verifState], path string) bool {
	h.calls, h.path = append(h.calls, "opendir"), path
	h.ok = verifrt.Bool("handler.ok")
	return h.ok
}
func (h *verifHandler) HandleReadDir(ctx *Context[verifState]) []fs.FileInfo {
	h.calls = append(h.calls, "readdir")
	n := verifrt.Choice("readdir.count", 3)
	labels := [2]string{"e0", "e1"}
	for i := 0; i < n; i++ {
		h.infos = append(h.infos, h.newInfo(labels[i]))
		h.mts = append(h.mts, h.mt)
	}
	return h.infos
}
func (h *verifHandler) HandleReadDirEntry(ctx *Context[verifState]) fs.FileInfo {
	h.calls = append(h.calls, "readdirentry")
	if verifrt.Bool("entry.end") {
		return nil
	}
	h.info = h.newInfo("e")
	return h.info
}
func (h *verifHandler) HandleStatFile(ctx *Context[verifState], path string) (fs.FileInfo, error) {
	h.calls, h.path = append(h.calls, "stat"), path
	if err := h.maybeErr(); err != nil {
		return nil, err
	}
	h.info = h.newInfo("e")
	return h.info, nil
}
func (h *verifHandler) HandleOpenFile(ctx *Context[verifState], path string) (fs.FileInfo, error) {
	h.calls, h.path = append(h.calls, "openfile"), path
	if err := h.maybeErr(); err != nil {
		return nil, err
	}
	h.info = h.newInfo("e")
	return h.info, nil
}
func (h *verifHandler) HandleCloseFile(ctx *Context[verifState]) {
	h.calls = append(h.calls, "closefile")
}
func (h *verifHandler) HandleReadFile(ctx *Context[verifState], limit uint32, offset uint64, w ReadFileResponseWriter) error {
	h.calls, h.limit, h.offset = append(h.calls, "readfile"), limit, offset
	if verifrt.Bool("read.fails-before-header") {
		h.err = true
		return verifErr
	}
	n := verifrt.Choice("read.n", 3)
	h.body = verifrt.Bytes("read.body", n)
	h.headerN, h.headerSent = int32(n), true
	w.WriteHeader(int32(n))
	if n > 0 {
		if _, err := w.Write(h.body); err != nil {
			h.err = true
			return err
		}
	}
	return nil
}
func (h *verifHandler) critical(w io.Writer) error {
	n := verifrt.Choice("critical.n", 3)
	h.body = verifrt.Bytes("critical.body", n)
	if n > 0 {
		if _, err := w.Write(h.body); err != nil {
			h.err = true
			return err
		}
	}
	return h.maybeErr()
}
func (h *verifHandler) HandleReadFileCritical(ctx *Context[verifState], limit uint32, offset uint64, w io.Writer) error {
	h.calls, h.limit, h.offset = append(h.calls, "readcritical"), limit, offset
	return h.critical(w)
}
func (h *verifHandler) HandleReadCD2048Critical(ctx *Context[verifState], startSector, sectorsToRead uint32, w io.Writer) error {
	h.calls, h.a, h.b = append(h.calls, "readcd"), startSector, sectorsToRead
	return h.critical(w)
}
func (h *verifHandler) HandleCreateFile(ctx *Context[verifState], path string) error {
	h.calls, h.path = append(h.calls, "create"), path
	return h.maybeErr()
}
func (h *verifHandler) HandleWriteFile(ctx *Context[verifState], data io.Reader) (int32, error) {
	h.calls = append(h.calls, "write")
	// the handler may consume all, part or nothing of the payload
	switch verifrt.Choice("write.consume", 3) {
	case 0:
	case 1:
		one := make([]byte, 1)
		n, _ := data.Read(one)
		h.payload = append(h.payload, one[:n]...)
	case 2:
		all, _ := io.ReadAll(data)
		h.payload = all
		h.consumeAll = true
	}
	if err := h.maybeErr(); err != nil {
		return 0, err
	}
	h.written = verifrt.Int32("write.result")
	return h.written, nil
}
func (h *verifHandler) HandleDeleteFile(ctx *Context[verifState], path string) error {
	h.calls, h.path = append(h.calls, "delete"), path
	return h.maybeErr()
}
func (h *verifHandler) HandleMkdir(ctx *Context[verifState], path string) error {
	h.calls, h.path = append(h.calls, "mkdir"), path
	return h.maybeErr()
}
func (h *verifHandler) HandleRmdir(ctx *Context[verifState], path string) error {
	h.calls, h.path = append(h.calls, "rmdir"), path
	return h.maybeErr()
}
func (h *verifHandler) HandleGetDirSize(ctx *Context[verifState], path string) (int64, error) {
	h.calls, h.path = append(h.calls, "dirsize"), path
	if err := h.maybeErr(); err != nil {
		return 0, err
	}
	h.size64 = verifrt.Int64("dirsize.result")
	return h.size64, nil
}

// ---- expected layouts ----

func verifBE(out []byte, v uint64, n int) []byte {
	for i := n - 1; i >= 0; i-- {
		out = append(out, byte(v>>(8*uint(i))))
	}
	return out
}

func verifBool(b bool) uint64 {
	if b {
		return 1
	}
	return 0
}

func verifResultCode(ok bool) []byte {
	if ok {
		return []byte{0, 0, 0, 0}
	}
	return []byte{0xff, 0xff, 0xff, 0xff}
}

func verifEntrySize(fi fs.FileInfo) uint64 {
	if fi.IsDir() {
		return 0
	}
	return uint64(fi.Size())
}

var verifOpcodes = [15]uint16{0x1224, 0x1225, 0x1226, 0x1227, 0x1228, 0x1229, 0x122a, 0x122b, 0x122c, 0x122d, 0x122e, 0x122f, 0x1230, 0x1231, 0x1232}

func verifHasPath(op uint16) bool {
	switch op {
	case 0x1224, 0x1228, 0x122a, 0x122c, 0x122d, 0x122e, 0x1230, 0x1231:
		return true
	}
	return false
}

// verifRequest builds one request: 16-byte command (unused bytes symbolic) + path / payload.
func verifRequest(op uint16, path string, payload []byte) []byte {
	cmd := verifrt.Bytes("cmdpad", 16)
	cmd[0], cmd[1] = byte(op>>8), byte(op)
	switch {
	case verifHasPath(op):
		cmd[2], cmd[3] = byte(len(path)>>8), byte(len(path))
		return append(cmd, path...)
	case op == 0x1229:
		n := uint32(len(payload))
		cmd[4], cmd[5], cmd[6], cmd[7] = byte(n>>24), byte(n>>16), byte(n>>8), byte(n)
		return append(cmd, payload...)
	}
	return cmd
}

func verifExpected(op uint16, h *verifHandler, closefile bool) (out []byte, continues bool) {
	switch op {
	case 0x122a:
		return verifResultCode(h.ok), true
	case 0x1228, 0x122c, 0x122d, 0x122e:
		return verifResultCode(!h.err), true
	case 0x1229:
		if h.err {
			return verifResultCode(false), true
		}
		return verifBE(nil, uint64(uint32(h.written)), 4), true
	case 0x1231:
		if h.err {
			return verifBE(nil, ^uint64(0), 8), true
		}
		return verifBE(nil, uint64(h.size64), 8), true
	case 0x1224:
		if closefile {
			return make([]byte, 16), true
		}
		if h.err {
			return verifBE(verifBE(nil, ^uint64(0), 8), 0, 8), true
		}
		return verifBE(verifBE(nil, uint64(h.info.Size()), 8), uint64(h.mt), 8), true
	case 0x1230:
		if h.err {
			return verifBE(verifBE(nil, ^uint64(0), 8), 0, 25), true
		}
		out = verifBE(nil, verifEntrySize(h.info), 8)
		out = verifBE(verifBE(verifBE(out, uint64(h.mt), 8), uint64(h.ct), 8), uint64(h.at), 8)
		return verifBE(out, verifBool(h.info.IsDir()), 1), true
	case 0x122b:
		if h.info == nil {
			return verifBE(verifBE(nil, ^uint64(0), 8), 0, 3), true
		}
		out = verifBE(nil, verifEntrySize(h.info), 8)
		out = verifBE(verifBE(out, uint64(len(h.info.Name())), 2), verifBool(h.info.IsDir()), 1)
		return append(out, h.info.Name()...), true
	case 0x122f:
		if h.info == nil {
			return verifBE(verifBE(nil, ^uint64(0), 8), 0, 27), true
		}
		out = verifBE(nil, verifEntrySize(h.info), 8)
		out = verifBE(verifBE(verifBE(out, uint64(h.mt), 8), uint64(h.ct), 8), uint64(h.at), 8)
		out = verifBE(verifBE(out, uint64(len(h.info.Name())), 2), verifBool(h.info.IsDir()), 1)
		return append(out, h.info.Name()...), true
	case 0x1232:
		out = verifBE(nil, uint64(len(h.infos)), 8)
		for i, fi := range h.infos {
			out = verifBE(verifBE(verifBE(out, verifEntrySize(fi), 8), uint64(h.mts[i]), 8), verifBool(fi.IsDir()), 1)
			name := make([]byte, 512)
			copy(name, fi.Name())
			out = append(out, name...)
		}
		return out, true
	case 0x1227:
		if !h.headerSent {
			return nil, false
		}
		return append(verifBE(nil, uint64(uint32(h.headerN)), 4), h.body...), !h.err
	case 0x1225, 0x1226:
		return h.body, !h.err
	}
	return nil, false
}

func verifSameBytes(a, b []byte, label string) {
	verifrt.Assert(len(a) == len(b), label+".length")
	if len(a) != len(b) {
		return
	}
	same := true
	for i := range a {
		same = same && a[i] == b[i]
	}
	verifrt.Assert(same, label+".bytes")
}

func verifNewServer(h *verifHandler) *Server[verifState] {
	return &Server[verifState]{Handler: h, Logger: slog.Default()}
}

// One complete request of every kind, any handler outcome, any segmentation of the input.
func VerifC03_Request() {
	op := verifOpcodes[verifrt.Choice("opcode", 15)]
	path := "/ab"
	closefile := false
	if op == 0x1224 && verifrt.Bool("closefile") {
		path, closefile = "/x/CLOSEFILE", true
	}
	payload := verifrt.Bytes("payload", verifrt.Choice("payloadlen", 1+verifrt.Bound("C03.maxpayload", 3, 5)))
	req := verifRequest(op, path, payload)
	next := verifrt.Bytes("nextrequest", 3) // what follows on the wire must stay unread
	conn := &verifstub.Conn{In: append(append([]byte{}, req...), next...), ShortBudget: verifrt.Bound("C03.segments", 1, 2)}
	h := &verifHandler{}
	ctx := &Context[verifState]{rd: protoReader(conn), wr: protoWriter(conn)}

	s := verifNewServer(h)
	opc, rerr := ctx.rd.ReadCommand()
	verifrt.Assert(rerr == nil && uint16(opc) == op, "request.command-read")
	err := s.handleCommand(opc, ctx)

	want, continues := verifExpected(op, h, closefile)
	verifrt.Assert(conn.Pos == len(req), "request.consumed-exactly")
	verifrt.Assert((err == nil) == continues, "request.continues")
	verifSameBytes(conn.Out, want, "request.response")
	// arguments reach the handler as sent
	switch {
	case closefile:
		verifrt.Assert(len(h.calls) == 1 && h.calls[0] == "closefile", "request.closefile-call")
	case verifHasPath(op):
		verifrt.Assert(len(h.calls) == 1 && h.path == path, "request.path-argument")
	case op == 0x1229:
		verifrt.Assert(len(h.calls) == 1, "request.one-call")
		if h.consumeAll {
			verifSameBytes(h.payload, payload, "request.payload")
		}
	case op == 0x1225 || op == 0x1227:
		verifrt.Assert(h.limit == verifGet32(req[4:]) && h.offset == uint64(verifGet32(req[8:]))<<32|uint64(verifGet32(req[12:])), "request.read-arguments")
	case op == 0x1226:
		verifrt.Assert(h.a == verifGet32(req[4:]) && h.b == verifGet32(req[8:]), "request.cd-arguments")
	default:
		verifrt.Assert(len(h.calls) == 1, "request.one-call")
	}
}

func verifGet32(b []byte) uint32 {
	return uint32(b[0])<<24 | uint32(b[1])<<16 | uint32(b[2])<<8 | uint32(b[3])
}

// Truncated and unknown requests only end the connection, without a single response byte.
func VerifC03_Truncated() {
	op := verifOpcodes[verifrt.Choice("opcode", 15)]
	payload := verifrt.Bytes("payload", 2)
	req := verifRequest(op, "/ab", payload)
	cut := verifrt.Choice("cut", len(req)) // keep 0..len-1 bytes
	if op == 0x1229 && cut >= 16 {
		return // a write whose payload is cut is the handler's business (it sees a short payload): covered by Request
	}
	conn := &verifstub.Conn{In: req[:cut], ShortBudget: 1, EndErr: verifrt.Bool("reset")}
	h := &verifHandler{}
	s := verifNewServer(h)
	s.serveConn(conn)
	verifrt.Assert(len(conn.Out) == 0, "truncated.no-response-bytes")
	verifrt.Assert(conn.Closes >= 1, "truncated.connection-closed")
	verifrt.Assert(len(h.calls) == 0, "truncated.no-handler-call")
}

func VerifC03_UnknownOpcode() {
	cmd := verifrt.Bytes("cmd", 16)
	op := uint16(cmd[0])<<8 | uint16(cmd[1])
	verifrt.Assume(op < 0x1224 || op > 0x1232)
	conn := &verifstub.Conn{In: append(cmd, verifrt.Bytes("rest", 4)...)}
	h := &verifHandler{}
	verifNewServer(h).serveConn(conn)
	verifrt.Assert(len(conn.Out) == 0 && conn.Closes >= 1 && len(h.calls) == 0, "unknown.ends-connection-silently")
}

// Two requests back to back: answered in order, each exactly once; then the state is closed with the connection.
func VerifC03_Sequence() {
	op1 := [3]uint16{0x1229, 0x1230, 0x122b}[verifrt.Choice("first", 3)]
	payload := verifrt.Bytes("payload", 2)
	req1 := verifRequest(op1, "/ab", payload)
	req2 := verifRequest(0x1231, "/cd", nil)
	conn := &verifstub.Conn{In: append(append([]byte{}, req1...), req2...), ShortBudget: 1}
	h1 := &verifSeqHandler{}
	s := &Server[verifState]{Handler: h1, Logger: slog.Default()}
	s.serveConn(conn)
	verifrt.Assert(conn.Closes >= 1, "sequence.closed-at-end")
	verifrt.Assert(len(h1.order) == 2 && h1.order[1] == "dirsize:/cd", "sequence.second-request-understood")
	verifrt.Assert(conn.Pos == len(conn.In), "sequence.all-consumed")
	// the second response are the last 8 bytes
	if len(conn.Out) >= 8 {
		tail := conn.Out[len(conn.Out)-8:]
		verifrt.Assert(verifGet32(tail) == 0 && verifGet32(tail[4:]) == 0x01020304, "sequence.second-response")
	} else {
		verifrt.Assert(false, "sequence.second-response")
	}
}

// verifSeqHandler: a minimal well-behaved handler (refuses writes without reading the payload).
type verifSeqHandler struct {
	verifHandler
	order []string
}

func (h *verifSeqHandler) HandleWriteFile(ctx *Context[verifState], data io.Reader) (int32, error) {
	h.order = append(h.order, "write")
	return 0, verifErr
}
func (h *verifSeqHandler) HandleStatFile(ctx *Context[verifState], path string) (fs.FileInfo, error) {
	h.order = append(h.order, "stat:"+path)
	return nil, verifErr
}
func (h *verifSeqHandler) HandleReadDirEntry(ctx *Context[verifState]) fs.FileInfo {
	h.order = append(h.order, "entry")
	return nil
}
func (h *verifSeqHandler) HandleGetDirSize(ctx *Context[verifState], path string) (int64, error) {
	h.order = append(h.order, "dirsize:"+path)
	return 0x01020304, nil
}

// Paths of every legal length: the announced length is a 16-bit number, so requests with paths of up
// to 65535 bytes are framed like any other - lengths around the usual buffer sizes (256, 4 KiB,
// 32 KiB) and the maximum, through the real connection loop (whatever reader it puts on the socket).
func VerifC03_LongPath() {
	op := [8]uint16{0x1224, 0x1228, 0x122a, 0x122c, 0x122d, 0x122e, 0x1230, 0x1231}[verifrt.Choice("opcode", 8)]
	L := [7]int{255, 256, 4096, 4097, 32768, 32769, 65535}[verifrt.Choice("pathlen", 7)]
	b := make([]byte, L)
	for i := range b {
		b[i] = 'a' + byte(i%7)
	}
	b[0] = '/'
	path := string(b)
	req := verifRequest(op, path, nil)
	conn := &verifstub.Conn{In: req} // segmentation is the subject of Request/Sequence; here every read is served in full
	h := &verifHandler{}
	s := verifNewServer(h)
	s.serveConn(conn)
	want, _ := verifExpected(op, h, false)
	verifrt.Assert(conn.Pos == len(req), "longpath.consumed-exactly")
	verifSameBytes(conn.Out, want, "longpath.response")
	verifrt.Assert(len(h.calls) == 1 && h.path == path, "longpath.path-argument")
}

//go:build verif

package iprange

// C14: every accepted range specification denotes exactly the documented
// address set. Addresses, masks, prefixes and probes are symbolic; the oracle
// works on 32/128-bit words and shares no code with the implementation.

import (
	"net"
	"strconv"

	"github.com/xakep666/ps3netsrv-go/internal/verifrt"
)

// ---- environment: net.ParseIP and strconv.Atoi on the (symbolic) specification ----

type verifC14Env struct {
	on bool
	// texts the parser is expected to hand to net.ParseIP and what ParseIP answers for them
	textA, textB, textM string
	ipA, ipB, ipM       net.IP
	asked               []string
}

var verifC14 verifC14Env

func verifClone(ip net.IP) net.IP {
	if ip == nil {
		return nil
	}
	c := make(net.IP, len(ip))
	copy(c, ip)
	return c
}

// verifStub_net_ParseIP replaces net.ParseIP while a C14 harness runs in the engine:
// the placeholders stand for arbitrary address texts, the answer is the harness's symbolic address.
func verifStub_net_ParseIP(s string) net.IP {
	if !verifC14.on {
		return net.ParseIP(s)
	}
	verifC14.asked = append(verifC14.asked, s)
	switch {
	case verifC14.textA != "" && s == verifC14.textA:
		return verifClone(verifC14.ipA)
	case verifC14.textB != "" && s == verifC14.textB:
		return verifClone(verifC14.ipB)
	case verifC14.textM != "" && s == verifC14.textM:
		return verifClone(verifC14.ipM)
	}
	return nil
}

// verifAtoi is strconv.Atoi for strings of at most 3 bytes (sign, decimal digits).
func verifAtoi(s string) (int, bool) {
	if len(s) == 0 {
		return 0, false
	}
	i := 0
	neg := false
	if s[0] == '+' || s[0] == '-' {
		neg = s[0] == '-'
		i = 1
		if len(s) == 1 {
			return 0, false
		}
	}
	n := 0
	for ; i < len(s); i++ {
		d := s[i]
		if d < '0' || d > '9' {
			return 0, false
		}
		n = n*10 + int(d-'0')
	}
	if neg {
		n = -n
	}
	return n, true
}

func verifStub_strconv_Atoi(s string) (int, error) {
	if !verifC14.on {
		return strconv.Atoi(s)
	}
	if len(s) > 3 { // placeholders are never numbers
		return 0, strconv.ErrSyntax
	}
	n, ok := verifAtoi(s)
	if !ok {
		return 0, strconv.ErrSyntax
	}
	return n, nil
}

// ---- symbolic addresses ----

// verifAddr returns a 16-byte address as net.ParseIP returns it, of the requested family
// (v4 = IPv4-mapped form), with unconstrained address bits.
func verifAddr(label string, v4 bool) net.IP {
	a := net.IP(verifrt.Bytes(label, 16))
	if v4 {
		for i := 0; i < 10; i++ {
			verifrt.Assume(a[i] == 0)
		}
		verifrt.Assume(a[10] == 0xff)
		verifrt.Assume(a[11] == 0xff)
	} else {
		verifrt.Assume(verifHi(a)|(verifLo(a)>>32^0xffff) != 0)
	}
	return a
}

func verifHi(ip net.IP) uint64 {
	var v uint64
	for i := 0; i < 8; i++ {
		v = v<<8 | uint64(ip[i])
	}
	return v
}

func verifLo(ip net.IP) uint64 {
	var v uint64
	for i := 8; i < 16; i++ {
		v = v<<8 | uint64(ip[i])
	}
	return v
}

func verifLE128(ahi, alo, bhi, blo uint64) bool { return ahi < bhi || (ahi == bhi && alo <= blo) }

func verifIsMapped(ip net.IP) bool {
	return verifHi(ip) == 0 && verifLo(ip)>>32 == 0xffff
}

// verifProbe returns a symbolic probe address (4- or 16-byte form) and its 16-byte meaning.
func verifProbe() (probe net.IP, hi, lo uint64) {
	if verifrt.Choice("probeform", 2) == 0 {
		p := net.IP(verifrt.Bytes("probe", 16))
		return p, verifHi(p), verifLo(p)
	}
	p := net.IP(verifrt.Bytes("probe4", 4))
	return p, 0, 0xffff<<32 | uint64(p[0])<<24 | uint64(p[1])<<16 | uint64(p[2])<<8 | uint64(p[3])
}

// ---- CIDR ----

// oracle: members of a block given its base address, width and prefix length
func verifBlockContains(ahi, alo uint64, v4 bool, p int, qhi, qlo uint64) bool {
	var mhi, mlo uint64 // mask
	bits := 128
	if v4 {
		bits = 32
		mhi = ^uint64(0)
		mlo = 0xffffffff00000000
		if p != 0 {
			mlo |= uint64(^uint32(0) << uint(32-p))
		}
	} else {
		switch {
		case p == 0:
		case p < 64:
			mhi = ^uint64(0) << uint(64-p)
		case p == 64:
			mhi = ^uint64(0)
		default:
			mhi = ^uint64(0)
			mlo = ^uint64(0) << uint(128-p)
		}
	}
	nhi, nlo := ahi&mhi, alo&mlo   // network address
	bhi, blo := nhi|^mhi, nlo|^mlo // broadcast address
	in := qhi&mhi == nhi && qlo&mlo == nlo
	if p < bits-1 {
		in = in && !(qhi == nhi && qlo == nlo) && !(qhi == bhi && qlo == blo)
	}
	return in
}

func VerifC14_CIDR() {
	v4 := verifrt.Choice("family", 2) == 0
	a := verifAddr("addr", v4)
	plen := verifrt.Choice("prefixtextlen", 4) // 0..3 characters after the slash
	pbytes := verifrt.Bytes("prefixtext", plen)
	if plen > 0 {
		// explicitly signed prefix lengths ("/+24", "/-0") are not part of the documented grammar: outside the claim
		verifrt.Assume(pbytes[0] != '+' && pbytes[0] != '-')
	}
	ptext := string(pbytes)

	var spec string
	if verifrt.Symbolic() {
		verifC14 = verifC14Env{on: true, textA: "ADDR", ipA: a}
		spec = "ADDR/" + ptext
	} else {
		spec = a.String() + "/" + ptext
	}

	r, err := ParseIPRange(spec)

	p, isNum := verifAtoi(ptext)
	bits := 128
	if v4 {
		bits = 32
	}
	wantOK := isNum && p >= 0 && p <= bits
	if !verifrt.Symbolic() {
		// natively a short text may also be an IPv6 address such as "::" (rejected as a mask) - same verdict
		wantOK = wantOK && net.ParseIP(ptext) == nil
	}
	verifrt.Assert((err == nil) == wantOK, "cidr.accept")
	verifrt.Assert((r == nil) == (err != nil), "cidr.result-or-error")
	if err != nil {
		return
	}
	probe, qhi, qlo := verifProbe()
	want := verifBlockContains(verifHi(a), verifLo(a), v4, p, qhi, qlo)
	verifrt.Assert(r.Contains(probe) == want, "cidr.member")
}

// ---- dotted netmask (IPv4 only) ----

func VerifC14_Mask() {
	v4 := verifrt.Choice("family", 2) == 0
	a := verifAddr("addr", v4)
	mform := verifrt.Choice("maskform", 2) // 0: dotted IPv4 text, 1: some IPv6 text
	m := verifAddr("mask", mform == 0)

	var spec string
	if verifrt.Symbolic() {
		verifC14 = verifC14Env{on: true, textA: "ADDR", ipA: a, textM: "MASKTEXT", ipM: m}
		spec = "ADDR/MASKTEXT"
	} else {
		spec = a.String() + "/" + m.String()
	}
	r, err := ParseIPRange(spec)

	m32 := uint32(verifLo(m))
	// contiguous: ones followed by zeros
	inv := ^m32
	contiguous := inv&(inv+1) == 0
	wantOK := v4 && mform == 0 && contiguous
	verifrt.Assert((err == nil) == wantOK, "mask.accept")
	if err != nil {
		return
	}
	p := 0
	for k := 0; k < 32; k++ {
		if m32&(1<<uint(31-k)) != 0 {
			p++
		}
	}
	probe, qhi, qlo := verifProbe()
	want := verifBlockContains(verifHi(a), verifLo(a), true, p, qhi, qlo)
	verifrt.Assert(r.Contains(probe) == want, "mask.member")
}

// ---- first-last ranges ----

func verifMaybeAddr(label string) (net.IP, bool) {
	switch verifrt.Choice(label+".kind", 3) {
	case 0:
		return nil, false
	case 1:
		return verifAddr(label, true), true
	}
	return verifAddr(label, false), false
}

func VerifC14_Range() {
	l, l4 := verifMaybeAddr("left")
	rr, r4 := verifMaybeAddr("right")
	var spec string
	if verifrt.Symbolic() {
		verifC14 = verifC14Env{on: true, textA: "LEFT", ipA: l, textB: "RGHT", ipB: rr}
		spec = "LEFT-RGHT"
	} else {
		ls, rs := "bad", "bad"
		if l != nil {
			ls = l.String()
		}
		if rr != nil {
			rs = rr.String()
		}
		spec = ls + "-" + rs
	}
	r, err := ParseIPRange(spec)
	wantOK := l != nil && rr != nil && l4 == r4 && verifLE128(verifHi(l), verifLo(l), verifHi(rr), verifLo(rr))
	verifrt.Assert((err == nil) == wantOK, "range.accept")
	if err != nil {
		return
	}
	probe, qhi, qlo := verifProbe()
	want := verifLE128(verifHi(l), verifLo(l), qhi, qlo) && verifLE128(qhi, qlo, verifHi(rr), verifLo(rr))
	verifrt.Assert(r.Contains(probe) == want, "range.member")
}

// ---- single address, through UnmarshalText ----

func VerifC14_Single() {
	a, _ := verifMaybeAddr("addr")
	var spec string
	if verifrt.Symbolic() {
		verifC14 = verifC14Env{on: true, textA: "ADDR", ipA: a}
		spec = "ADDR"
	} else {
		spec = "bad"
		if a != nil {
			spec = a.String()
		}
	}
	var r IPRange
	err := r.UnmarshalText([]byte(spec))
	verifrt.Assert((err == nil) == (a != nil), "single.accept")
	if err != nil {
		return
	}
	probe, qhi, qlo := verifProbe()
	verifrt.Assert(r.Contains(probe) == (qhi == verifHi(a) && qlo == verifLo(a)), "single.member")
}

// ---- New ----

func VerifC14_New() {
	l := net.IP(verifrt.Bytes("left", 4+12*verifrt.Choice("leftlen", 2)))
	r := net.IP(verifrt.Bytes("right", 4+12*verifrt.Choice("rightlen", 2)))
	rg := New(l, r)
	l16, r16 := l.To16(), r.To16()
	wantOK := len(l) == len(r) && verifLE128(verifHi(l16), verifLo(l16), verifHi(r16), verifLo(r16))
	verifrt.Assert((rg != nil) == wantOK, "new.accept")
	if rg == nil {
		return
	}
	probe, qhi, qlo := verifProbe()
	want := verifLE128(verifHi(l16), verifLo(l16), qhi, qlo) && verifLE128(qhi, qlo, verifHi(r16), verifLo(r16))
	verifrt.Assert(rg.Contains(probe) == want, "new.member")
}

// ---- dispatcher: the specification is split at the first '/' or '-' ----

func VerifC14_Dispatch() {
	n := 1 + verifrt.Choice("speclen", verifrt.Bound("C14.speclen", 5, 5))
	b := verifrt.Bytes("spec", n)
	for i := range b {
		verifrt.Assume(b[i] < 0x80)
	}
	spec := string(b)
	if !verifrt.Symbolic() {
		return // natively a 5-character text can be a real address ("::1"): decided symbolically only
	}
	verifC14 = verifC14Env{on: true}
	r, err := ParseIPRange(spec)
	// no text parses as an address here, so everything must be rejected (and nothing may panic)
	verifrt.Assert(r == nil && err != nil, "dispatch.reject")
}

// ---- concrete specification texts (the layer below the ParseIP stub) ----
//
// The harnesses above replace the address-text parser by a stub that answers placeholder texts with
// symbolic addresses, so they do not depend on how an address text is read. This table closes that
// gap for the text level: concrete specifications (the shapes of the repository's own test table
// plus texts the documented grammar excludes: zones, mixed families, reversed bounds, over-long
// prefixes) go through the real ParseIPRange - whatever text parser it uses - and the accepted set
// is compared with the expected first/last addresses for EVERY probe address (the probe is symbolic).

type verifC14Text struct {
	spec     string
	ok       bool
	lhi, llo uint64 // first address (128-bit, IPv4 as ::ffff:a.b.c.d)
	rhi, rlo uint64 // last address
}

const verifV4 = uint64(0xffff) << 32

var verifC14Texts = []verifC14Text{
	{"192.0.2.7", true, 0, verifV4 | 0xC0000207, 0, verifV4 | 0xC0000207},
	{"192.0.2.0-192.0.2.10", true, 0, verifV4 | 0xC0000200, 0, verifV4 | 0xC000020A},
	{"192.0.2.0-192.0.2.0", true, 0, verifV4 | 0xC0000200, 0, verifV4 | 0xC0000200},
	{"192.0.2.0/24", true, 0, verifV4 | 0xC0000201, 0, verifV4 | 0xC00002FE},
	{"192.0.2.77/24", true, 0, verifV4 | 0xC0000201, 0, verifV4 | 0xC00002FE},
	{"192.0.2.0/255.255.255.0", true, 0, verifV4 | 0xC0000201, 0, verifV4 | 0xC00002FE},
	{"127.0.0.1/8", true, 0, verifV4 | 0x7F000001, 0, verifV4 | 0x7FFFFFFE},
	{"192.0.2.4/31", true, 0, verifV4 | 0xC0000204, 0, verifV4 | 0xC0000205},
	{"192.0.2.9/32", true, 0, verifV4 | 0xC0000209, 0, verifV4 | 0xC0000209},
	{"192.0.2.0/0", true, 0, verifV4 | 0x00000001, 0, verifV4 | 0xFFFFFFFE},
	{"::ffff:192.0.2.1", true, 0, verifV4 | 0xC0000201, 0, verifV4 | 0xC0000201},
	{"2001:db8::5", true, 0x20010db800000000, 5, 0x20010db800000000, 5},
	{"::1", true, 0, 1, 0, 1},
	{"2001:db8::/64", true, 0x20010db800000000, 1, 0x20010db800000000, 0xfffffffffffffffe},
	{"2001:db8::-2001:db8::ff", true, 0x20010db800000000, 0, 0x20010db800000000, 0xff},
	{"fd00::/127", true, 0xfd00000000000000, 0, 0xfd00000000000000, 1},
	{"fd00::7/128", true, 0xfd00000000000000, 7, 0xfd00000000000000, 7},
	// rejected
	{"", false, 0, 0, 0, 0},
	{"192.0.2.", false, 0, 0, 0, 0},
	{"192.0.2.0/", false, 0, 0, 0, 0},
	{"192.0.2.0-", false, 0, 0, 0, 0},
	{"-192.0.2.0", false, 0, 0, 0, 0},
	{"192.0.2.10-192.0.2.0", false, 0, 0, 0, 0},
	{"192.0.2.0/33", false, 0, 0, 0, 0},
	{"2001:db8::/129", false, 0, 0, 0, 0},
	{"192.0.2.0/255.0.255.0", false, 0, 0, 0, 0},
	{"192.0.2.0-2001:db8::1", false, 0, 0, 0, 0},
	{"2001:db8::-192.0.2.10", false, 0, 0, 0, 0},
	{"2001:db8::/ffff::", false, 0, 0, 0, 0},
	{"host.example", false, 0, 0, 0, 0},
	{"fe80::1%eth0", false, 0, 0, 0, 0},
	{"fe80::%eth0/64", false, 0, 0, 0, 0},
	{"fe80::1%a-fe80::5%b", false, 0, 0, 0, 0},
	{"fe80::1-fe80::5%b", false, 0, 0, 0, 0},
	{"192.0.2.0/::ffff:255.255.255.0%lo", false, 0, 0, 0, 0},
}

func VerifC14_Texts() {
	tc := verifC14Texts[verifrt.Choice("text", len(verifC14Texts))]
	verifC14 = verifC14Env{}
	r, err := ParseIPRange(tc.spec)
	verifrt.Assert((err == nil) == tc.ok, "texts.accept")
	verifrt.Assert((r == nil) == (err != nil), "texts.result-or-error")
	if err != nil || r == nil {
		return
	}
	probe, qhi, qlo := verifProbe()
	want := verifLE128(tc.lhi, tc.llo, qhi, qlo) && verifLE128(qhi, qlo, tc.rhi, tc.rlo)
	verifrt.Assert(r.Contains(probe) == want, "texts.member")
}

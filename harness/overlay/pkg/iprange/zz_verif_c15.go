//go:build verif

package iprange

// C15 (whitelist half): the filtering listener hands out exactly the connections whose peer
// address is in the set (outside it when inverted) and closes every other one untouched.

import (
	"errors"
	"net"

	"github.com/xakep666/ps3netsrv-go/internal/verifrt"
	"github.com/xakep666/ps3netsrv-go/internal/verifstub"
)

type verifListener struct {
	conns  []*verifstub.Conn
	pos    int
	closed int
}

var verifAcceptErr = errors.New("verif: listener closed")

func (l *verifListener) Accept() (net.Conn, error) {
	if l.pos >= len(l.conns) {
		return nil, verifAcceptErr
	}
	c := l.conns[l.pos]
	l.pos++
	return c, nil
}
func (l *verifListener) Close() error   { l.closed++; return nil }
func (l *verifListener) Addr() net.Addr { return &net.TCPAddr{} }

type verifOtherAddr struct{}

func (verifOtherAddr) Network() string { return "unix" }
func (verifOtherAddr) String() string  { return "other" }

func VerifC15_Filter() {
	left := verifAddr("left", verifrt.Bool("left.v4"))
	right := verifAddr("right", verifrt.Bool("right.v4"))
	verifrt.Assume(verifLE128(verifHi(left), verifLo(left), verifHi(right), verifLo(right)))
	r := New(left, right) // the public constructor: the harness does not depend on the range's representation
	verifrt.Assert(r != nil, "filter.range-constructed")
	if r == nil {
		return
	}
	invert := verifrt.Bool("invert")
	n := 1 + verifrt.Choice("connections", verifrt.Bound("C15.maxconns", 2, 3))
	inner := &verifListener{}
	labels := [3]string{"peer0", "peer1", "peer2"}
	want := make([]bool, n) // should connection i be admitted?
	for i := 0; i < n; i++ {
		c := &verifstub.Conn{}
		var ip net.IP
		if verifrt.Bool(labels[i] + ".short") {
			ip = net.IP(verifrt.Bytes(labels[i]+".ip4", 4))
		} else {
			ip = net.IP(verifrt.Bytes(labels[i]+".ip16", 16))
		}
		ip16 := ip.To16()
		in := verifLE128(verifHi(left), verifLo(left), verifHi(ip16), verifLo(ip16)) && verifLE128(verifHi(ip16), verifLo(ip16), verifHi(right), verifLo(right))
		switch verifrt.Choice(labels[i]+".addrtype", 4) {
		case 0:
			c.Remote = &net.TCPAddr{IP: ip, Port: 1000}
		case 1:
			c.Remote = &net.IPAddr{IP: ip}
		case 2:
			c.Remote = &net.UDPAddr{IP: ip, Port: 2000}
		default:
			c.Remote = verifOtherAddr{} // not an IP transport: the filter does not apply
			in = !invert
		}
		want[i] = in != invert
		inner.conns = append(inner.conns, c)
	}
	l := FilterListener(inner, r, invert)
	got, err := l.Accept()
	first := -1
	for i := 0; i < n; i++ {
		if want[i] {
			first = i
			break
		}
	}
	if first < 0 {
		verifrt.Assert(got == nil && err == verifAcceptErr, "filter.inner-error-passed-up")
		first = n
	} else {
		verifrt.Assert(err == nil && got == net.Conn(inner.conns[first]), "filter.first-admissible-returned")
		verifrt.Assert(inner.conns[first].Closes == 0, "filter.returned-connection-open")
	}
	for i := 0; i < first; i++ {
		c := inner.conns[i]
		verifrt.Assert(c.Closes == 1, "filter.rejected-closed-once")
		verifrt.Assert(len(c.ReadsAfter) == 0 && len(c.Out) == 0, "filter.rejected-untouched")
	}
	for i := first + 1; i < n; i++ {
		verifrt.Assert(inner.conns[i].Closes == 0, "filter.later-connections-not-consumed")
	}
}

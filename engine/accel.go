package main

import "golang.org/x/tools/go/ssa"

func (ex *Exec) tryAccelerate(fr *frame, block, prev *ssa.BasicBlock) (*ssa.BasicBlock, bool) {
	return nil, false
}

package main

// Fill-loop acceleration (DESIGN.md section 1.4 and appendix B).
//
// A loop   for i := lo; i < N [&& i < M ...]; i++ { obj[i+c] = const }
// is executed once for an arbitrary iteration k (lo <= k, all continuation
// conditions assumed), which checks every run-time check of every iteration;
// its effect is then applied as a `fill` layer and i := max(lo, min(N, M..)).
// The pattern is verified on the executed iteration (terms), not on syntax.

import (
	"fmt"
	"go/token"
	"sync"

	"golang.org/x/tools/go/ssa"
)

type accelBail struct{ why string }

var accelReject sync.Map // *ssa.BasicBlock -> true : syntactically not a candidate

type loopInfo struct {
	blocks map[*ssa.BasicBlock]bool
	back   *ssa.BasicBlock
}

func findLoop(h *ssa.BasicBlock) *loopInfo {
	var back *ssa.BasicBlock
	for _, p := range h.Preds {
		if h.Dominates(p) {
			if back != nil {
				return nil // several back edges
			}
			back = p
		}
	}
	if back == nil {
		return nil
	}
	li := &loopInfo{blocks: map[*ssa.BasicBlock]bool{h: true}, back: back}
	stack := []*ssa.BasicBlock{back}
	for len(stack) > 0 {
		b := stack[len(stack)-1]
		stack = stack[:len(stack)-1]
		if li.blocks[b] {
			continue
		}
		li.blocks[b] = true
		for _, p := range b.Preds {
			stack = append(stack, p)
		}
	}
	return li
}

func accelCandidate(h *ssa.BasicBlock) *loopInfo {
	if _, rej := accelReject.Load(h); rej {
		return nil
	}
	reject := func() *loopInfo { accelReject.Store(h, true); return nil }
	nphi := 0
	for _, ins := range h.Instrs {
		if _, ok := ins.(*ssa.Phi); ok {
			nphi++
		}
	}
	if nphi != 1 {
		return reject()
	}
	if _, ok := h.Instrs[len(h.Instrs)-1].(*ssa.If); !ok {
		return reject()
	}
	li := findLoop(h)
	if li == nil || len(li.blocks) > 4 {
		return reject()
	}
	stores := 0
	for b := range li.blocks {
		for _, ins := range b.Instrs {
			switch x := ins.(type) {
			case *ssa.Phi, *ssa.BinOp, *ssa.Convert, *ssa.ChangeType, *ssa.FieldAddr, *ssa.IndexAddr, *ssa.Field, *ssa.If, *ssa.Jump, *ssa.DebugRef, *ssa.Extract:
			case *ssa.UnOp:
				if x.Op != token.MUL && x.Op != token.SUB && x.Op != token.XOR && x.Op != token.NOT {
					return reject()
				}
			case *ssa.Store:
				stores++
			case *ssa.Call:
				b, ok := x.Call.Value.(*ssa.Builtin)
				if !ok || (b.Name() != "len" && b.Name() != "cap" && b.Name() != "min" && b.Name() != "max") {
					return reject()
				}
			default:
				return reject()
			}
			// values defined in the loop must not be used after it (except the induction phi)
			if v, ok := ins.(ssa.Value); ok {
				if _, isPhi := ins.(*ssa.Phi); !isPhi && v.Referrers() != nil {
					for _, r := range *v.Referrers() {
						if !li.blocks[r.Block()] {
							return reject()
						}
					}
				}
			}
		}
	}
	if stores == 0 {
		return reject()
	}
	return li
}

type accelStore struct {
	node *BytesNode
	idx  *Term
	val  *Term
}

func (ex *Exec) tryAccelerate(fr *frame, h, prev *ssa.BasicBlock) (next *ssa.BasicBlock, ok bool) {
	li := accelCandidate(h)
	if li == nil || li.blocks[prev] || ex.scratch {
		return nil, false
	}
	tf := ex.tf
	var phi *ssa.Phi
	for _, ins := range h.Instrs {
		if p, isPhi := ins.(*ssa.Phi); isPhi {
			phi = p
		}
	}
	w, signed, isInt := intWidth(phi.Type())
	if !isInt || w != 64 {
		return nil, false
	}
	pidx, bidx := -1, -1
	for i, p := range h.Preds {
		if p == prev {
			pidx = i
		}
		if p == li.back {
			bidx = i
		}
	}
	if pidx < 0 || bidx < 0 {
		return nil, false
	}
	initV, isI := ex.eval(fr, phi.Edges[pidx]).(IntV)
	if !isI {
		return nil, false
	}
	init := initV.T

	// ----- scratch execution of one arbitrary iteration -----
	savedPC := len(ex.pc)
	savedViol := len(ex.violations)
	savedWit := append([]*witness{}, ex.witnesses...)
	ex.pendingNotes = nil
	var addedFacts []int
	savedFactsHook := ex.factJournal
	ex.factJournal = &addedFacts
	savedPos := ex.curPos
	savedBounds := make(map[int]rng, len(ex.bounds))
	for id, r := range ex.bounds {
		savedBounds[id] = r
	}
	sfr := &frame{fn: fr.fn, locals: make(map[ssa.Value]Value, len(fr.locals)+16), visits: map[*ssa.BasicBlock]int{}, symDec: map[*ssa.BasicBlock]int{}}
	for k, v := range fr.locals {
		sfr.locals[k] = v
	}
	ex.accelSeq++
	k := tf.Var(fmt.Sprintf("accel.iter#%d.%d", len(ex.decs), ex.accelSeq), 64)
	sfr.locals[phi] = IntV{k}
	var stores []accelStore
	var conds []*Term
	var exit *ssa.BasicBlock
	restore := func() {
		ex.pc = ex.pc[:savedPC]
		for _, id := range addedFacts {
			delete(ex.facts, id)
		}
		ex.factJournal = savedFactsHook
		ex.scratch = false
		ex.curPos = savedPos
		ex.bounds = savedBounds
		ex.rngMemo = nil
		ex.witnesses = savedWit
	}
	bailed := ""
	func() {
		defer func() {
			if r := recover(); r != nil {
				if b, isBail := r.(accelBail); isBail {
					bailed = b.why
					return
				}
				if _, isEnd := r.(pathEnd); isEnd {
					// no iteration can execute (lo <= k and the conditions are contradictory): loop body is dead
					bailed = "dead"
					return
				}
				restore()
				panic(r)
			}
		}()
		ex.scratch = true
		if signed {
			ex.addPCj(tf.Sle(init, k))
		} else {
			ex.addPCj(tf.Ule(init, k))
		}
		cur := h
		for steps := 0; ; steps++ {
			if steps > 8 {
				panic(accelBail{"loop too long"})
			}
			var nxt *ssa.BasicBlock
			for _, ins := range cur.Instrs {
				switch x := ins.(type) {
				case *ssa.Phi, *ssa.DebugRef:
				case *ssa.Store:
					p, isP := ex.eval(sfr, x.Addr).(PtrV)
					if !isP || !p.Elem {
						panic(accelBail{"store to non-byte location"})
					}
					v, isV := ex.eval(sfr, x.Val).(IntV)
					if !isV || !v.T.IsConst() {
						panic(accelBail{"stored value not constant"})
					}
					stores = append(stores, accelStore{p.N.(*BytesNode), p.Idx, v.T})
				case *ssa.UnOp:
					if x.Op == token.MUL {
						p := ex.eval(sfr, x.X).(PtrV)
						if p.Elem {
							panic(accelBail{"load of a byte inside the loop"})
						}
					}
					ex.exec(sfr, ins)
				case *ssa.If:
					c := ex.eval(sfr, x.Cond).(BoolV).T
					in0, in1 := li.blocks[cur.Succs[0]], li.blocks[cur.Succs[1]]
					switch {
					case in0 && !in1:
						nxt = cur.Succs[0]
						if exit != nil && exit != cur.Succs[1] {
							panic(accelBail{"several exits"})
						}
						exit = cur.Succs[1]
					case in1 && !in0:
						c = tf.BNot(c)
						nxt = cur.Succs[1]
						if exit != nil && exit != cur.Succs[0] {
							panic(accelBail{"several exits"})
						}
						exit = cur.Succs[0]
					default:
						panic(accelBail{"branch inside the loop"})
					}
					conds = append(conds, c)
					if !ex.feasible(c) {
						panic(pathEnd{"no iteration"})
					}
					ex.addPCj(c)
					// iteration k > init runs only if iteration k-1 ran and continued
					prevC := tf.Subst(c, k, tf.Sub(k, tf.Const(64, 1)), map[int]*Term{})
					ex.addPCj(tf.BOr(tf.Eq(k, init), prevC))
				case *ssa.Jump:
					nxt = cur.Succs[0]
				default:
					ex.exec(sfr, ins)
				}
			}
			if nxt == h {
				break
			}
			if nxt == nil || !li.blocks[nxt] {
				panic(accelBail{"left the loop"})
			}
			cur = nxt
		}
	}()
	var incr Value
	if bailed == "" {
		incr = sfr.locals[phi.Edges[bidx]]
		if c, isC := phi.Edges[bidx].(*ssa.Const); isC {
			incr = ex.constVal(c)
		}
	}
	restore()
	notes := ex.pendingNotes
	ex.pendingNotes = nil
	giveUp := func() (*ssa.BasicBlock, bool) {
		// obligations examined for the arbitrary iteration are only meaningful if the loop is really
		// replaced; otherwise normal unrolling examines them with the exact iteration values
		ex.violations = ex.violations[:savedViol]
		return nil, false
	}
	if bailed != "" {
		return giveUp()
	}
	iv, isI2 := incr.(IntV)
	if !isI2 || iv.T != tf.Add(k, tf.Const(64, 1)) {
		return giveUp()
	}
	if exit == nil || len(conds) == 0 {
		return giveUp()
	}
	for _, ins := range exit.Instrs {
		if _, isPhi := ins.(*ssa.Phi); isPhi {
			return giveUp()
		}
	}
	// every continuation condition must be  k + d < N  with constant d and N independent of k
	var bounds []*Term                       // N - d for each condition
	splitKD := func(t *Term) (int64, bool) { // t == k + d ?
		if t == k {
			return 0, true
		}
		dd := tf.Sub(t, k)
		if dd.IsConst() && dd.SVal() >= -4096 && dd.SVal() <= 4096 {
			return dd.SVal(), true
		}
		return 0, false
	}
	for _, c := range conds {
		var lhs, n *Term
		switch {
		case signed && c.op == OpSlt:
			lhs, n = c.args[0], c.args[1]
		case !signed && c.op == OpUlt:
			lhs, n = c.args[0], c.args[1]
		case signed && c.op == OpBNot && c.args[0].op == OpSle:
			lhs, n = c.args[0].args[1], c.args[0].args[0] // !(N <= k)
		case !signed && c.op == OpBNot && c.args[0].op == OpUle:
			lhs, n = c.args[0].args[1], c.args[0].args[0]
		default:
			return giveUp()
		}
		d, okd := splitKD(lhs)
		if !okd || n.HasVar(k) {
			return giveUp()
		}
		if d != 0 {
			// k + d must not wrap: N is a length-like quantity
			r := ex.rangeOf(n)
			if r.lo < -(1<<60) || r.hi > 1<<60 {
				return giveUp()
			}
			n = tf.Sub(n, tf.Const(64, uint64(d)))
		}
		bounds = append(bounds, n)
	}
	lt := func(a, b *Term) *Term {
		if signed {
			return tf.Slt(a, b)
		}
		return tf.Ult(a, b)
	}
	N := bounds[0]
	for _, b := range bounds[1:] {
		N = tf.Ite(lt(b, N), b, N)
	}
	kEnd := N
	type fillOp struct {
		node *BytesNode
		d    *Term
		val  *Term
	}
	var fills []fillOp
	for _, s := range stores {
		d := tf.Sub(s.idx, k)
		if d.HasVar(k) {
			return giveUp()
		}
		fills = append(fills, fillOp{s.node, d, s.val})
	}
	nonEmpty := lt(init, N)
	for _, f := range fills {
		ex.bytesFill(f.node, nonEmpty, tf.Add(init, f.d), tf.Add(N, f.d), f.val)
	}
	for _, n := range notes {
		ex.eng.noteObligation(n.sig, n.res, n.who)
	}
	fr.locals[phi] = IntV{tf.Ite(nonEmpty, kEnd, init)}
	ex.accel = append(ex.accel, fmt.Sprintf("%s (%s)", ex.posStr(phi.Pos()), fr.fn.String()))
	// the header's own non-phi instructions define values that the exit block may not use (checked), so skip them
	return exit, true
}

// addPCj adds a conjunct to the path condition and journals the fact for later removal.
func (ex *Exec) addPCj(c *Term) {
	if c.IsTrue() || ex.facts[c.id] {
		return
	}
	ex.pc = append(ex.pc, c)
	ex.learn(c)
}

func (ex *Exec) setFact(id int) {
	if !ex.facts[id] {
		ex.facts[id] = true
		if ex.factJournal != nil {
			*ex.factJournal = append(*ex.factJournal, id)
		}
	}
}

package main

import (
	"encoding/json"
	"fmt"
	"os"
	"path/filepath"
	"strings"
)

type replayFile struct {
	Property string            `json:"property"`
	Harness  string            `json:"harness"`
	Package  string            `json:"package"`
	Kind     string            `json:"kind"`
	Label    string            `json:"label"`
	Detail   string            `json:"detail"`
	Values   map[string]uint64 `json:"values"`
	Path     []int             `json:"path"`
}

func (e *Engine) writeReplay(prop string, v *Violation) (string, bool) {
	rf := replayFile{Property: prop, Harness: v.Harness, Kind: v.Kind, Label: v.Label, Detail: v.Detail, Values: map[string]uint64{}, Path: v.Path}
	if v.Model != nil {
		for k, x := range v.Model.vars {
			rf.Values[k] = x
		}
		for fn, m := range v.Model.funcs {
			for args, x := range m {
				rf.Values[fn+"["+args+"]"] = x
			}
		}
	}
	dir := filepath.Join(e.verifDir, "replays")
	os.MkdirAll(dir, 0o755)
	name := strings.NewReplacer("/", "_", ":", "_", " ", "_", "|", "_").Replace(fmt.Sprintf("%s_%s_%s_%s", prop, v.Harness, v.Kind, v.Label))
	if len(name) > 120 {
		name = name[:120]
	}
	p := filepath.Join(dir, name+".json")
	b, _ := json.MarshalIndent(rf, "", " ")
	os.WriteFile(p, b, 0o644)
	return p, true
}

func cmdReplay(args []string) int {
	fmt.Println("replay: not implemented yet")
	return 3
}

package main

// Native replay of counterexamples: the solver's assignment is written to a
// replay file, the harness is compiled natively together with the real code
// (go test -overlay) and run with the nondeterministic primitives reading
// that file. Only a reproduced failure is reported as a violation.

import (
	"encoding/json"
	"fmt"
	"os"
	"os/exec"
	"path/filepath"
	"regexp"
	"sort"
	"strings"
	"time"

	"golang.org/x/tools/go/ssa"
)

var harnessNameRe = regexp.MustCompile(`^VerifC[0-9]+_[A-Za-z0-9_]+$`)

type replayFile struct {
	Property string            `json:"property"`
	Harness  string            `json:"harness"`
	Package  string            `json:"package"`
	PkgDir   string            `json:"pkgdir"`
	Kind     string            `json:"kind"`
	Label    string            `json:"label"`
	Detail   string            `json:"detail"`
	Tier     string            `json:"tier"`
	Values   map[string]uint64 `json:"values"`
	Path     []int             `json:"path"`
	Native   string            `json:"native_result,omitempty"`
}

func (e *Engine) writeReplay(prop string, v *Violation) (string, bool) {
	rf := replayFile{Property: prop, Harness: v.Harness, Kind: v.Kind, Label: v.Label, Detail: v.Detail, Tier: e.tier,
		Values: map[string]uint64{}, Path: v.Path, Package: v.Pkg, PkgDir: v.PkgDir}
	if v.Model != nil {
		for k, x := range v.Model.vars {
			rf.Values[k] = x
		}
		for fn, m := range v.Model.funcs {
			for args, x := range m {
				rf.Values[fn+"["+args+"]"] = x
			}
		}
	}
	for k, x := range v.Choices {
		rf.Values[k] = x
	}
	dir := filepath.Join(e.verifDir, "replays")
	os.MkdirAll(dir, 0o755)
	name := strings.NewReplacer("/", "_", ":", "_", " ", "_", "|", "_").Replace(fmt.Sprintf("%s_%s_%s_%s", prop, v.Harness, v.Kind, v.Label))
	if len(name) > 120 {
		name = name[:120]
	}
	p := filepath.Join(dir, name+".json")
	if v.Kind == "alloc" {
		// an input-controlled allocation above 1 GiB is not executed natively (it would exhaust memory); reported as is
		rf.Native = "not run (allocation-size obligation)"
		b, _ := json.MarshalIndent(rf, "", " ")
		os.WriteFile(p, b, 0o644)
		return p, true
	}
	b, _ := json.MarshalIndent(rf, "", " ")
	os.WriteFile(p, b, 0o644)
	res, out := e.runNative(&rf, p)
	rf.Native = res
	b, _ = json.MarshalIndent(rf, "", " ")
	os.WriteFile(p, b, 0o644)
	ok := nativeMatches(&rf, res)
	if !ok && strings.HasPrefix(res, "native-unsupported") {
		// the harness replaces repository or dependency functions by stubs that only the engine can inject:
		// the counterexample is confirmed by re-executing the harness in the engine with the model's values imposed
		if e.confirmInEngine(v, rf.Values) {
			rf.Native = res + "; confirmed by re-execution in the engine with the counterexample's values imposed"
			b, _ = json.MarshalIndent(rf, "", " ")
			os.WriteFile(p, b, 0o644)
			return p, true
		}
	}
	if !ok {
		fmt.Fprintf(os.Stderr, "native replay of %s: %q (expected %s %s)\n%s\n", p, res, rf.Kind, rf.Label, tail(out, 30))
	}
	return p, ok
}

func tail(s string, n int) string {
	ls := strings.Split(strings.TrimRight(s, "\n"), "\n")
	if len(ls) > n {
		ls = ls[len(ls)-n:]
	}
	return strings.Join(ls, "\n")
}

func nativeMatches(rf *replayFile, res string) bool {
	switch rf.Kind {
	case "assert":
		if !strings.HasPrefix(res, "assert-fail ") {
			return false
		}
		for _, l := range strings.Split(strings.TrimPrefix(res, "assert-fail "), ",") {
			if l == rf.Label {
				return true
			}
		}
		return false
	default:
		return strings.HasPrefix(res, "panic ")
	}
}

// harnessNames lists the Verif* harness functions of a package directory (from the overlay sources).
func (e *Engine) harnessNames(pkgDir string) []string {
	var names []string
	for p, src := range e.overlay {
		if filepath.Dir(p) != pkgDir || !strings.Contains(filepath.Base(p), "zz_verif_") || strings.HasSuffix(p, "_test.go") {
			continue
		}
		for _, line := range strings.Split(string(src), "\n") {
			if strings.HasPrefix(line, "func Verif") {
				n := strings.TrimPrefix(line, "func ")
				if i := strings.Index(n, "("); i > 0 && harnessNameRe.MatchString(n[:i]) {
					names = append(names, n[:i])
				}
			}
		}
	}
	sort.Strings(names)
	return names
}

func (e *Engine) runNative(rf *replayFile, replayPath string) (string, string) {
	if e.overlay == nil {
		if err := e.readOverlay(); err != nil {
			return "error: " + err.Error(), ""
		}
	}
	tmp, err := os.MkdirTemp("", "symgo-replay-")
	if err != nil {
		return "error: " + err.Error(), ""
	}
	defer os.RemoveAll(tmp)
	pkgDir := rf.PkgDir
	pkgName := rf.Package
	var sb strings.Builder
	sb.WriteString("//go:build verif\n\npackage " + pkgName + "\n\nimport (\n\t\"fmt\"\n\t\"os\"\n\t\"strings\"\n\t\"testing\"\n\n\t\"" + e.modPathOrDefault() + "/internal/verifrt\"\n)\n\n")
	sb.WriteString("func TestVerifReplay(t *testing.T) {\n\tfns := map[string]func(){\n")
	for _, n := range e.harnessNames(pkgDir) {
		fmt.Fprintf(&sb, "\t\t%q: %s,\n", n, n)
	}
	sb.WriteString(`	}
	h, err := verifrt.Load(os.Getenv("VERIF_REPLAY_FILE"))
	if err != nil {
		t.Fatal(err)
	}
	f := fns[h]
	if f == nil {
		t.Fatal("unknown harness " + h)
	}
	defer func() {
		if r := recover(); r != nil {
			if nu, ok := r.(verifrt.NativeUnsupportedError); ok {
				fmt.Println("REPLAY-RESULT: native-unsupported " + string(nu))
				return
			}
			if _, ok := r.(verifrt.AssumeFailed); ok {
				if len(verifrt.Failures) > 0 {
					fmt.Println("REPLAY-RESULT: assert-fail " + strings.Join(verifrt.Failures, ","))
					return
				}
				fmt.Println("REPLAY-RESULT: assume-failed")
				return
			}
			if len(verifrt.Failures) > 0 {
				// an assertion had already failed; what the harness did afterwards is irrelevant
				fmt.Println("REPLAY-RESULT: assert-fail " + strings.Join(verifrt.Failures, ","))
				return
			}
			fmt.Printf("REPLAY-RESULT: panic %v\n", r)
			return
		}
		if len(verifrt.Failures) > 0 {
			fmt.Println("REPLAY-RESULT: assert-fail " + strings.Join(verifrt.Failures, ","))
			return
		}
		fmt.Println("REPLAY-RESULT: ok")
	}()
	f()
}
`)
	testFile := filepath.Join(tmp, "zz_verif_replay_test.go")
	os.WriteFile(testFile, []byte(sb.String()), 0o644)
	ov := map[string]map[string]string{"Replace": {}}
	i := 0
	for p, src := range e.overlay {
		f := filepath.Join(tmp, fmt.Sprintf("ov%d.go", i))
		i++
		os.WriteFile(f, src, 0o644)
		ov["Replace"][p] = f
	}
	ov["Replace"][filepath.Join(pkgDir, "zz_verif_replay_test.go")] = testFile
	ob, _ := json.Marshal(ov)
	ovPath := filepath.Join(tmp, "overlay.json")
	os.WriteFile(ovPath, ob, 0o644)
	rel, _ := filepath.Rel(e.repoDir, pkgDir)
	cmd := exec.Command("go", "test", "-tags", "verif", "-vet=off", "-count=1", "-v", "-run", "^TestVerifReplay$", "-overlay", ovPath, "./"+rel)
	cmd.Dir = e.repoDir
	cmd.Env = append(os.Environ(), "GOFLAGS=-mod=mod", "GOPROXY=off", "GOSUMDB=off", "GOTOOLCHAIN=local",
		"VERIF_REPLAY_FILE="+replayPath, "VERIF_TIER="+rf.Tier)
	done := make(chan struct{})
	var out []byte
	go func() { out, _ = cmd.CombinedOutput(); close(done) }()
	select {
	case <-done:
	case <-time.After(5 * time.Minute):
		if cmd.Process != nil {
			cmd.Process.Kill()
		}
		<-done
		return "timeout", string(out)
	}
	for _, l := range strings.Split(string(out), "\n") {
		if strings.HasPrefix(l, "REPLAY-RESULT: ") {
			return strings.TrimPrefix(l, "REPLAY-RESULT: "), string(out)
		}
	}
	if strings.Contains(string(out), "panic:") || strings.Contains(string(out), "fatal error:") {
		return "panic (process) " + firstLineWith(string(out), "panic:", "fatal error:"), string(out)
	}
	return "error: no result", string(out)
}

func firstLineWith(s string, subs ...string) string {
	for _, l := range strings.Split(s, "\n") {
		for _, sub := range subs {
			if strings.Contains(l, sub) {
				return l
			}
		}
	}
	return ""
}

func (e *Engine) modPathOrDefault() string {
	if e.modPath != "" {
		return e.modPath
	}
	b, err := os.ReadFile(filepath.Join(e.repoDir, "go.mod"))
	if err == nil {
		for _, l := range strings.Split(string(b), "\n") {
			if strings.HasPrefix(l, "module ") {
				return strings.TrimSpace(strings.TrimPrefix(l, "module "))
			}
		}
	}
	return "github.com/xakep666/ps3netsrv-go"
}

func cmdReplay(args []string) int {
	if len(args) < 1 {
		usage()
	}
	e := newEngine()
	b, err := os.ReadFile(args[0])
	if err != nil {
		fmt.Fprintln(os.Stderr, err)
		return 3
	}
	var rf replayFile
	if err := json.Unmarshal(b, &rf); err != nil {
		fmt.Fprintln(os.Stderr, err)
		return 3
	}
	if rf.Kind == "alloc" {
		fmt.Println("replay: allocation-size obligation; not executed natively:", rf.Detail)
		return 1
	}
	res, out := e.runNative(&rf, args[0])
	fmt.Println("native result:", res)
	if nativeMatches(&rf, res) {
		fmt.Printf("VIOLATION property=%s replay=%s\n", rf.Property, args[0])
		return 1
	}
	fmt.Println(tail(out, 20))
	return 0
}

// confirmInEngine re-executes the violating harness with the counterexample's scalar values imposed
// and reports whether the same obligation fails again.
func (e *Engine) confirmInEngine(v *Violation, values map[string]uint64) bool {
	if e.prog == nil {
		return false
	}
	var h *ssa.Function
	for _, p := range e.ssaPkgs {
		if p == nil {
			continue
		}
		if f := p.Func(v.Harness); f != nil && e.isRepoPkg(p.Pkg.Path()) {
			h = f
		}
	}
	if h == nil {
		return false
	}
	tf := NewTF()
	solver := NewSolver(e.stats)
	defer solver.Close()
	queue := [][]int{nil}
	for n := 0; len(queue) > 0 && n < 300; n++ {
		prefix := queue[len(queue)-1]
		queue = queue[:len(queue)-1]
		ex := e.newExec(tf, solver, h, prefix)
		ex.pins = values
		e.runPath(ex, h)
		for _, vv := range ex.violations {
			if vv.Sig() == v.Sig() {
				return true
			}
		}
		queue = append(queue, ex.alts...)
	}
	return false
}

// validateSamples runs the sampled inputs of completed paths natively: the engine found no failing
// obligation on those paths, so the natively compiled harness must report "ok" as well.
func (e *Engine) validateSamples(prop string) {
	type job struct{ v *Violation }
	var jobs []job
	for _, vs := range e.okSamples {
		for _, v := range vs {
			jobs = append(jobs, job{v})
		}
	}
	sem := make(chan struct{}, 6)
	done := make(chan string, len(jobs))
	for _, j := range jobs {
		j := j
		go func() {
			sem <- struct{}{}
			defer func() { <-sem }()
			rf := replayFile{Property: prop, Harness: j.v.Harness, Kind: "sample", Label: j.v.Label, Tier: e.tier,
				Values: map[string]uint64{}, Path: j.v.Path, Package: j.v.Pkg, PkgDir: j.v.PkgDir}
			if j.v.Model != nil {
				for k, x := range j.v.Model.vars {
					rf.Values[k] = x
				}
				for fn, m := range j.v.Model.funcs {
					for args, x := range m {
						rf.Values[fn+"["+args+"]"] = x
					}
				}
			}
			for k, x := range j.v.Choices {
				rf.Values[k] = x
			}
			dir := filepath.Join(e.verifDir, "replays")
			os.MkdirAll(dir, 0o755)
			p := filepath.Join(dir, fmt.Sprintf("%s_%s_sample_%s.json", prop, j.v.Harness, j.v.Label))
			b, _ := json.MarshalIndent(rf, "", " ")
			os.WriteFile(p, b, 0o644)
			res, _ := e.runNative(&rf, p)
			if res == "ok" {
				done <- ""
			} else {
				done <- fmt.Sprintf("%s %s: engine found no failure on this path but the native run says %q (replay %s)", j.v.Harness, j.v.Label, res, p)
			}
		}()
	}
	for range jobs {
		if r := <-done; r == "" {
			e.tracesValidated++
		} else {
			e.tracesMismatch = append(e.tracesMismatch, r)
		}
	}
}

package main

// Values and memory of the symbolic executor.

import (
	"fmt"
	"go/types"
	"sync/atomic"

	"golang.org/x/tools/go/ssa"
)

type Value interface{}

type IntV struct{ T *Term }  // any integer (width = T.w)
type BoolV struct{ T *Term } // T.w == 0
type FloatV struct{ F float64 }

// StrV is a string: either concrete (Conc) or bytes [Off, Off+N) of an immutable layer chain.
type StrV struct {
	Conc bool
	S    string
	Mem  *layer
	Off  *Term
	N    *Term
}

// PtrV points to a memory node; for byte arrays Idx (64-bit) selects the element when Elem is set.
type PtrV struct {
	N    Node
	Elem bool
	Idx  *Term
	Win  int // > 0: pointer to an array of Win bytes starting at Idx inside the byte object (slice-to-array-pointer view)
}

type SliceV struct {
	Arr           Node // *ArrayNode or *BytesNode; nil for nil slice
	Off, Len, Cap *Term
}

type StructV struct{ F []Value }
type ArrayV struct{ E []Value }
type BytesV struct {
	Mem *layer
	N   int
}
type IfaceV struct {
	T types.Type // nil for nil interface
	V Value
}
type FuncV struct {
	Fn   *ssa.Function
	Bind []Value
	Nat  func(ex *Exec, args []Value) Value // native closure (intrinsics)
}
type TupleV []Value
type MapV struct{ M *MapObj }
type MapObj struct {
	keys []Value
	vals []Value
}
type PoisonV struct{ Why string }

// ChanV is a buffered channel used sequentially (non-blocking operations only).
type ChanV struct{ C *ChanObj }
type ChanObj struct {
	capacity int
	queue    []Value
	closed   bool
}

// range iterator state for strings / maps
type IterV struct {
	Str StrV
	Pos int
	Map *MapObj
}

// ---------- memory nodes ----------

type Node interface{}

type ScalarNode struct{ V Value }
type StructNode struct{ F []Node }
type ArrayNode struct {
	E     []Node
	ElemT types.Type
}
type BytesNode struct {
	id   int
	head *layer          // frozen layers
	mut  map[int64]*Term // mutable concrete-index overlay on top of head
	n    *Term           // length in bytes (64-bit term)
	memo map[[2]int]*Term
}

type lkind uint8

const (
	lZero lkind = iota // base: all zero
	lArr               // base or window: select(arr, pos + (i - dlo)) for i in [dlo, dlo+n)
	lStore
	lFill
	lCopy
	lConc
	lMap // window: fn(tag, i-dlo, read(src, i-dlo+slo)) for i in [dlo, dlo+n)
)

type layer struct {
	id    int
	kind  lkind
	next  *layer
	idx   *Term // store
	val   *Term // store, fill (8-bit)
	guard *Term // fill
	lo    *Term // fill lo / copy,arr dst lo
	hi    *Term // fill hi
	n     *Term // copy / arr length
	src   *layer
	slo   *Term  // copy src lo / arr pos
	arr   string // arr name
	whole bool   // lArr covering every index (base array)
	conc  map[int64]*Term
}

var layerCounter int64

func newLayer(l layer) *layer {
	l.id = int(atomic.AddInt64(&layerCounter, 1))
	return &l
}

var zeroBase = newLayer(layer{kind: lZero})

func (ex *Exec) newBytes(n *Term, base *layer) *BytesNode {
	ex.objCounter++
	return &BytesNode{id: ex.objCounter, head: base, n: n}
}

func (b *BytesNode) freeze() *layer {
	if len(b.mut) > 0 {
		b.head = newLayer(layer{kind: lConc, conc: b.mut, next: b.head})
		b.mut = nil
	}
	return b.head
}

func (ex *Exec) bytesWrite(b *BytesNode, i, v *Term) {
	if v.w != 8 {
		panic("bytesWrite width")
	}
	if i.IsConst() {
		if b.mut == nil {
			b.mut = map[int64]*Term{}
		}
		b.mut[int64(i.val)] = v
		return
	}
	b.freeze()
	b.head = newLayer(layer{kind: lStore, idx: i, val: v, next: b.head})
}

func (ex *Exec) bytesRead(b *BytesNode, i *Term) *Term {
	if i.IsConst() && b.mut != nil {
		if v, ok := b.mut[int64(i.val)]; ok {
			return v
		}
		return ex.layerRead(b.head, i)
	}
	return ex.layerRead(b.freeze(), i)
}

func (ex *Exec) bytesCopyIn(b *BytesNode, dlo, n *Term, src *layer, slo *Term) {
	if n.IsConst() && n.val == 0 {
		return
	}
	// small concrete copies become per-byte stores (keeps concrete buffers concrete)
	limit := uint64(64)
	if ex.eng.concreteCopies || ex.concreteCopies {
		limit = 4096
	}
	if n.IsConst() && dlo.IsConst() && slo.IsConst() && n.val <= limit {
		allConc := true
		vals := make([]*Term, n.val)
		for k := uint64(0); k < n.val; k++ {
			vals[k] = ex.layerRead(src, ex.tf.Const(64, slo.val+k))
			if !vals[k].IsConst() {
				allConc = false
			}
		}
		if allConc || n.val <= 64 {
			for k := uint64(0); k < n.val; k++ {
				ex.bytesWrite(b, ex.tf.Const(64, dlo.val+k), vals[k])
			}
			return
		}
	}
	b.freeze()
	b.head = newLayer(layer{kind: lCopy, lo: dlo, n: n, src: src, slo: slo, next: b.head})
}

func (ex *Exec) bytesFill(b *BytesNode, guard, lo, hi, v *Term) {
	if guard.IsFalse() {
		return
	}
	flimit := uint64(64)
	if ex.eng.concreteCopies || ex.concreteCopies {
		flimit = 8192
	}
	if guard.IsTrue() && lo.IsConst() && hi.IsConst() && hi.val-lo.val <= flimit {
		for k := lo.val; k < hi.val; k++ {
			ex.bytesWrite(b, ex.tf.Const(64, k), v)
		}
		return
	}
	b.freeze()
	b.head = newLayer(layer{kind: lFill, guard: guard, lo: lo, hi: hi, val: v, next: b.head})
}

func (ex *Exec) bytesArrIn(b *BytesNode, dlo, n *Term, arr string, pos *Term) {
	b.freeze()
	b.head = newLayer(layer{kind: lArr, lo: dlo, n: n, arr: arr, slo: pos, next: b.head})
}

// layerRead builds the term for byte i of an immutable layer chain.
func (ex *Exec) layerRead(l *layer, i *Term) *Term {
	tf := ex.tf
	key := [2]int{l.id, i.id}
	if v, ok := ex.readMemo[key]; ok {
		return v
	}
	var res *Term
	switch l.kind {
	case lZero:
		res = tf.Const(8, 0)
	case lConc:
		if i.IsConst() {
			if v, ok := l.conc[int64(i.val)]; ok {
				res = v
			} else {
				res = ex.layerRead(l.next, i)
			}
		} else {
			// symbolic index over concrete entries: ite chain (sorted for determinism)
			res = ex.layerRead(l.next, i)
			keys := sortedKeys(l.conc)
			if len(keys) > 600 {
				panic(unsupported{"symbolic index into large concrete buffer (" + fmt.Sprint(len(keys)) + " cells)"})
			}
			for _, k := range keys {
				res = tf.Ite(tf.Eq(i, tf.Const(64, uint64(k))), l.conc[k], res)
			}
		}
	case lStore:
		c := tf.Eq(i, l.idx)
		if c.IsTrue() {
			res = l.val
		} else if c.IsFalse() {
			res = ex.layerRead(l.next, i)
		} else {
			res = tf.Ite(c, l.val, ex.layerRead(l.next, i))
		}
	case lFill:
		c := tf.BAnd(l.guard, tf.Ult(tf.Sub(i, l.lo), tf.Sub(l.hi, l.lo)))
		c = ex.simplifyUnderPC(c)
		if c.IsTrue() {
			res = l.val
		} else if c.IsFalse() {
			res = ex.layerRead(l.next, i)
		} else {
			res = tf.Ite(c, l.val, ex.layerRead(l.next, i))
		}
	case lCopy:
		c := tf.Ult(tf.Sub(i, l.lo), l.n)
		c = ex.simplifyUnderPC(c)
		if c.IsFalse() {
			res = ex.layerRead(l.next, i)
		} else {
			in := ex.layerRead(l.src, tf.Add(tf.Sub(i, l.lo), l.slo))
			if c.IsTrue() {
				res = in
			} else {
				res = tf.Ite(c, in, ex.layerRead(l.next, i))
			}
		}
	case lMap:
		c := tf.Ult(tf.Sub(i, l.lo), l.n)
		c = ex.simplifyUnderPC(c)
		if c.IsFalse() {
			res = ex.layerRead(l.next, i)
		} else {
			k := tf.Sub(i, l.lo)
			in := tf.Apply(l.arr, 8, l.idx, k, tf.ZExt(ex.layerRead(l.src, tf.Add(k, l.slo)), 64))
			if c.IsTrue() {
				res = in
			} else {
				res = tf.Ite(c, in, ex.layerRead(l.next, i))
			}
		}
	case lArr:
		if l.whole {
			res = tf.Apply(l.arr, 8, i)
		} else {
			c := tf.Ult(tf.Sub(i, l.lo), l.n)
			c = ex.simplifyUnderPC(c)
			if c.IsFalse() {
				res = ex.layerRead(l.next, i)
			} else {
				in := tf.Apply(l.arr, 8, tf.Add(tf.Sub(i, l.lo), l.slo))
				if c.IsTrue() {
					res = in
				} else {
					res = tf.Ite(c, in, ex.layerRead(l.next, i))
				}
			}
		}
	}
	ex.readMemo[key] = res
	return res
}

func sortedKeys(m map[int64]*Term) []int64 {
	ks := make([]int64, 0, len(m))
	for k := range m {
		ks = append(ks, k)
	}
	for i := 1; i < len(ks); i++ {
		for j := i; j > 0 && ks[j-1] > ks[j]; j-- {
			ks[j-1], ks[j] = ks[j], ks[j-1]
		}
	}
	return ks
}

// ---------- type helpers ----------

func isByteType(t types.Type) bool {
	b, ok := t.Underlying().(*types.Basic)
	return ok && (b.Kind() == types.Uint8 || b.Kind() == types.Int8)
}

func intWidth(t types.Type) (w int, signed bool, ok bool) {
	b, isb := t.Underlying().(*types.Basic)
	if !isb {
		return 0, false, false
	}
	switch b.Kind() {
	case types.Int8:
		return 8, true, true
	case types.Int16:
		return 16, true, true
	case types.Int32:
		return 32, true, true
	case types.Int64, types.Int, types.UntypedInt, types.UntypedRune:
		return 64, true, true
	case types.Uint8:
		return 8, false, true
	case types.Uint16:
		return 16, false, true
	case types.Uint32:
		return 32, false, true
	case types.Uint64, types.Uint, types.Uintptr:
		return 64, false, true
	}
	return 0, false, false
}

func (ex *Exec) zero(t types.Type) Value {
	tf := ex.tf
	switch u := t.Underlying().(type) {
	case *types.Basic:
		if w, _, ok := intWidth(t); ok {
			return IntV{tf.Const(w, 0)}
		}
		switch {
		case u.Info()&types.IsBoolean != 0:
			return BoolV{tf.False}
		case u.Info()&types.IsString != 0:
			return StrV{Conc: true}
		case u.Info()&types.IsFloat != 0:
			return FloatV{0}
		case u.Kind() == types.UnsafePointer:
			return PtrV{}
		case u.Kind() == types.UntypedNil:
			return PtrV{}
		}
	case *types.Pointer:
		return PtrV{}
	case *types.Slice:
		z := tf.Const(64, 0)
		return SliceV{Off: z, Len: z, Cap: z}
	case *types.Struct:
		f := make([]Value, u.NumFields())
		for i := range f {
			f[i] = ex.zero(u.Field(i).Type())
		}
		return StructV{f}
	case *types.Array:
		if isByteType(u.Elem()) {
			return BytesV{Mem: zeroBase, N: int(u.Len())}
		}
		e := make([]Value, u.Len())
		for i := range e {
			e[i] = ex.zero(u.Elem())
		}
		return ArrayV{e}
	case *types.Interface:
		return IfaceV{}
	case *types.Signature:
		return FuncV{}
	case *types.Map:
		return MapV{}
	case *types.Chan:
		return ChanV{}
	case *types.Tuple:
		tv := make(TupleV, u.Len())
		for i := range tv {
			tv[i] = ex.zero(u.At(i).Type())
		}
		return tv
	}
	panic(unsupported{"zero value of " + t.String()})
}

func (ex *Exec) newNode(t types.Type) Node {
	switch u := t.Underlying().(type) {
	case *types.Struct:
		n := &StructNode{F: make([]Node, u.NumFields())}
		for i := range n.F {
			n.F[i] = ex.newNode(u.Field(i).Type())
		}
		return n
	case *types.Array:
		if isByteType(u.Elem()) {
			return ex.newBytes(ex.tf.Const(64, uint64(u.Len())), zeroBase)
		}
		if u.Len() > 1<<20 {
			panic(unsupported{"huge array"})
		}
		n := &ArrayNode{E: make([]Node, u.Len()), ElemT: u.Elem()}
		for i := range n.E {
			n.E[i] = ex.newNode(u.Elem())
		}
		return n
	}
	return &ScalarNode{V: ex.zero(t)}
}

func (ex *Exec) loadNode(n Node) Value {
	switch n := n.(type) {
	case *ScalarNode:
		return n.V
	case *StructNode:
		f := make([]Value, len(n.F))
		for i := range f {
			f[i] = ex.loadNode(n.F[i])
		}
		return StructV{f}
	case *ArrayNode:
		e := make([]Value, len(n.E))
		for i := range e {
			e[i] = ex.loadNode(n.E[i])
		}
		return ArrayV{e}
	case *BytesNode:
		if !n.n.IsConst() {
			panic(unsupported{"load of symbolic-length byte array"})
		}
		return BytesV{Mem: n.freeze(), N: int(n.n.val)}
	}
	panic(fmt.Sprintf("loadNode %T", n))
}

func (ex *Exec) storeNode(n Node, v Value) {
	switch n := n.(type) {
	case *ScalarNode:
		n.V = v
	case *StructNode:
		sv, ok := v.(StructV)
		if !ok {
			panic(fmt.Sprintf("storeNode struct <- %T", v))
		}
		for i := range n.F {
			ex.storeNode(n.F[i], sv.F[i])
		}
	case *ArrayNode:
		av := v.(ArrayV)
		for i := range n.E {
			ex.storeNode(n.E[i], av.E[i])
		}
	case *BytesNode:
		bv := v.(BytesV)
		n.mut = nil
		n.head = bv.Mem
	default:
		panic(fmt.Sprintf("storeNode %T", n))
	}
}

func (ex *Exec) load(p PtrV) Value {
	if p.N == nil {
		panic("load nil (unchecked)")
	}
	if p.Elem && p.Win > 0 {
		tmp := ex.newBytes(ex.tf.Const(64, uint64(p.Win)), zeroBase)
		ex.bytesCopyIn(tmp, ex.tf.Const(64, 0), tmp.n, p.N.(*BytesNode).freeze(), p.Idx)
		return BytesV{Mem: tmp.freeze(), N: p.Win}
	}
	if p.Elem {
		return IntV{ex.bytesRead(p.N.(*BytesNode), p.Idx)}
	}
	return ex.loadNode(p.N)
}

func (ex *Exec) store(p PtrV, v Value) {
	if p.Elem && p.Win > 0 {
		bv := v.(BytesV)
		ex.bytesCopyIn(p.N.(*BytesNode), p.Idx, ex.tf.Const(64, uint64(p.Win)), bv.Mem, ex.tf.Const(64, 0))
		return
	}
	if p.Elem {
		ex.bytesWrite(p.N.(*BytesNode), p.Idx, v.(IntV).T)
		return
	}
	ex.storeNode(p.N, v)
}

// ---------- strings ----------

func concStr(s string) StrV { return StrV{Conc: true, S: s} }

func (ex *Exec) strLen(s StrV) *Term {
	if s.Conc {
		return ex.tf.Const(64, uint64(len(s.S)))
	}
	return s.N
}

func (ex *Exec) strByte(s StrV, i *Term) *Term {
	tf := ex.tf
	if s.Conc {
		if i.IsConst() {
			return tf.Const(8, uint64(s.S[i.val]))
		}
		res := tf.Const(8, 0)
		for k := len(s.S) - 1; k >= 0; k-- {
			res = tf.Ite(tf.Eq(i, tf.Const(64, uint64(k))), tf.Const(8, uint64(s.S[k])), res)
		}
		return res
	}
	return ex.layerRead(s.Mem, tf.Add(s.Off, i))
}

// strConcrete tries to turn a string into a concrete Go string.
func (ex *Exec) strConcrete(s StrV) (string, bool) {
	if s.Conc {
		return s.S, true
	}
	if !s.N.IsConst() || !s.Off.IsConst() {
		return "", false
	}
	if s.N.val > 1<<20 {
		return "", false
	}
	b := make([]byte, s.N.val)
	for k := range b {
		t := ex.layerRead(s.Mem, ex.tf.Const(64, s.Off.val+uint64(k)))
		if !t.IsConst() {
			return "", false
		}
		b[k] = byte(t.val)
	}
	return string(b), true
}

func (ex *Exec) normStr(s StrV) StrV {
	if c, ok := ex.strConcrete(s); ok {
		return concStr(c)
	}
	return s
}

// strLayer returns an immutable layer chain + offset holding the string's bytes.
func (ex *Exec) strLayer(s StrV) (*layer, *Term) {
	if !s.Conc {
		return s.Mem, s.Off
	}
	m := map[int64]*Term{}
	for k := 0; k < len(s.S); k++ {
		m[int64(k)] = ex.tf.Const(8, uint64(s.S[k]))
	}
	return newLayer(layer{kind: lConc, conc: m, next: zeroBase}), ex.tf.Const(64, 0)
}

func (ex *Exec) strEq(a, b StrV) *Term {
	tf := ex.tf
	a, b = ex.normStr(a), ex.normStr(b)
	if a.Conc && b.Conc {
		return tf.Bool(a.S == b.S)
	}
	la, lb := ex.strLen(a), ex.strLen(b)
	leq := tf.Eq(la, lb)
	if leq.IsFalse() {
		return tf.False
	}
	// need a concrete bound on the length of one side
	var n uint64
	switch {
	case la.IsConst():
		n = la.val
	case lb.IsConst():
		n = lb.val
	default:
		if v, ok := ex.upperBound(la); ok {
			n = v
		} else {
			panic(unsupported{"string comparison with two symbolic lengths"})
		}
	}
	conj := []*Term{leq}
	for k := uint64(0); k < n; k++ {
		kt := tf.Const(64, k)
		e := tf.Eq(ex.strByte(a, kt), ex.strByte(b, kt))
		if !la.IsConst() || !lb.IsConst() {
			e = tf.Implies(tf.Ult(kt, la), e)
		}
		conj = append(conj, e)
	}
	return tf.BAnd(conj...)
}

func (ex *Exec) strConcat(a, b StrV) StrV {
	a, b = ex.normStr(a), ex.normStr(b)
	if a.Conc && b.Conc {
		return concStr(a.S + b.S)
	}
	if a.Conc && a.S == "" {
		return b
	}
	if b.Conc && b.S == "" {
		return a
	}
	tf := ex.tf
	la, lb := ex.strLen(a), ex.strLen(b)
	ma, oa := ex.strLayer(a)
	mb, ob := ex.strLayer(b)
	tmp := ex.newBytes(tf.Add(la, lb), zeroBase)
	ex.bytesCopyIn(tmp, tf.Const(64, 0), la, ma, oa)
	ex.bytesCopyIn(tmp, la, lb, mb, ob)
	return StrV{Mem: tmp.freeze(), Off: tf.Const(64, 0), N: tf.Add(la, lb)}
}

func (ex *Exec) strSlice(s StrV, lo, hi *Term) StrV {
	if s.Conc && lo.IsConst() && hi.IsConst() {
		return concStr(s.S[lo.val:hi.val])
	}
	m, o := ex.strLayer(s)
	return StrV{Mem: m, Off: ex.tf.Add(o, lo), N: ex.tf.Sub(hi, lo)}
}

// ---------- equality of values ----------

func (ex *Exec) valEq(a, b Value) *Term {
	tf := ex.tf
	switch x := a.(type) {
	case IntV:
		return tf.Eq(x.T, b.(IntV).T)
	case BoolV:
		return tf.Eq(x.T, b.(BoolV).T)
	case StrV:
		return ex.strEq(x, b.(StrV))
	case PtrV:
		y, ok := b.(PtrV)
		if !ok {
			return tf.False
		}
		if x.N != y.N || x.Elem != y.Elem {
			return tf.False
		}
		if x.Elem {
			return tf.Eq(x.Idx, y.Idx)
		}
		return tf.True
	case StructV:
		y := b.(StructV)
		var c []*Term
		for i := range x.F {
			c = append(c, ex.valEq(x.F[i], y.F[i]))
		}
		return tf.BAnd(c...)
	case ArrayV:
		y := b.(ArrayV)
		var c []*Term
		for i := range x.E {
			c = append(c, ex.valEq(x.E[i], y.E[i]))
		}
		return tf.BAnd(c...)
	case BytesV:
		y := b.(BytesV)
		var c []*Term
		for i := 0; i < x.N; i++ {
			it := tf.Const(64, uint64(i))
			c = append(c, tf.Eq(ex.layerRead(x.Mem, it), ex.layerRead(y.Mem, it)))
		}
		return tf.BAnd(c...)
	case IfaceV:
		y, ok := b.(IfaceV)
		if !ok {
			return tf.False
		}
		if x.T == nil || y.T == nil {
			return tf.Bool(x.T == nil && y.T == nil)
		}
		if !types.Identical(x.T, y.T) {
			return tf.False
		}
		return ex.valEq(x.V, y.V)
	case FuncV:
		y := b.(FuncV)
		return tf.Bool(x.Fn == nil && y.Fn == nil && x.Nat == nil && y.Nat == nil)
	case SliceV:
		y := b.(SliceV)
		return tf.Bool(x.Arr == nil && y.Arr == nil) // only comparison with nil is legal
	case MapV:
		y := b.(MapV)
		return tf.Bool(x.M == y.M)
	case ChanV:
		y := b.(ChanV)
		return tf.Bool(x.C == y.C)
	case FloatV:
		return tf.Bool(x.F == b.(FloatV).F)
	}
	panic(unsupported{fmt.Sprintf("equality on %T", a)})
}

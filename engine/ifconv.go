package main

// If-conversion of short-circuit diamonds.
//
// `a && b` / `a || b` are lowered by go/ssa to a branch on a, a block computing b and a
// phi. Forking on a doubles the number of paths for every such operator. When the
// right-hand block is pure (no stores, no calls except len/cap and read-only verifrt
// primitives) it is executed speculatively under pc ∧ a (so its run-time checks are
// obligations under exactly the condition in which the real code executes them) and the
// phi at the join receives ite(a, b, <short-circuit value>) instead.

import (
	"go/token"
	"strings"
	"sync"

	"golang.org/x/tools/go/ssa"
)

var pureBlockCache sync.Map // *ssa.BasicBlock -> bool

func pureBlock(b *ssa.BasicBlock) bool {
	if v, ok := pureBlockCache.Load(b); ok {
		return v.(bool)
	}
	ok := len(b.Preds) == 1
	if ok {
		for _, ins := range b.Instrs {
			switch x := ins.(type) {
			case *ssa.BinOp, *ssa.Convert, *ssa.ChangeType, *ssa.Field, *ssa.FieldAddr, *ssa.IndexAddr, *ssa.Index,
				*ssa.Extract, *ssa.DebugRef, *ssa.If, *ssa.Jump, *ssa.Lookup, *ssa.Slice, *ssa.MakeInterface, *ssa.ChangeInterface:
				if l, isL := ins.(*ssa.Lookup); isL && l.CommaOk {
					ok = false
				}
			case *ssa.UnOp:
				if x.Op == token.ARROW {
					ok = false
				}
			case *ssa.Call:
				ok = ok && pureCallee(&x.Call)
			default:
				ok = false
			}
			if !ok {
				break
			}
		}
	}
	pureBlockCache.Store(b, ok)
	return ok
}

func pureCallee(cc *ssa.CallCommon) bool {
	if cc.IsInvoke() {
		return false
	}
	switch f := cc.Value.(type) {
	case *ssa.Builtin:
		return f.Name() == "len" || f.Name() == "cap"
	case *ssa.Function:
		n := f.String()
		if i := strings.Index(n, verifrtPath); i >= 0 {
			switch n[i+len(verifrtPath):] {
			case "ByteAt", "Symbolic":
				return true
			}
		}
	}
	return false
}

// tryIfConv handles the If terminating block cur with symbolic condition c. On success the
// phis of the join block have been assigned in fr.locals and the join block is returned.
func (ex *Exec) tryIfConv(fr *frame, cur *ssa.BasicBlock, c *Term) (*ssa.BasicBlock, bool) {
	if ex.scratch || ex.eng.noIfConv {
		return nil, false
	}
	t, f := cur.Succs[0], cur.Succs[1]
	var rhs, join *ssa.BasicBlock
	cond := c
	switch {
	case pureBlock(t) && joinOf(t, f):
		rhs, join = t, f
	case pureBlock(f) && joinOf(f, t):
		rhs, join = f, t
		cond = ex.tf.BNot(c)
	default:
		return nil, false
	}
	// values defined in rhs may only be used inside rhs or by phis of the join
	for _, ins := range rhs.Instrs {
		if v, ok := ins.(ssa.Value); ok && v.Referrers() != nil {
			for _, r := range *v.Referrers() {
				if r.Block() == rhs {
					continue
				}
				if _, isPhi := r.(*ssa.Phi); isPhi && r.Block() == join {
					continue
				}
				return nil, false
			}
		}
	}
	hasPhi := false
	for _, ins := range join.Instrs {
		if _, ok := ins.(*ssa.Phi); ok {
			hasPhi = true
		}
	}
	if !hasPhi {
		return nil, false
	}
	// ----- speculative execution of rhs under pc ∧ cond -----
	savedPC := len(ex.pc)
	savedWit := append([]*witness{}, ex.witnesses...)
	var added []int
	savedJ := ex.factJournal
	ex.factJournal = &added
	savedPos := ex.curPos
	savedBounds := make(map[int]rng, len(ex.bounds))
	for id, r := range ex.bounds {
		savedBounds[id] = r
	}
	sfr := &frame{fn: fr.fn, locals: make(map[ssa.Value]Value, len(fr.locals)+8), visits: fr.visits, symDec: fr.symDec}
	for k, v := range fr.locals {
		sfr.locals[k] = v
	}
	restore := func() {
		ex.pc = ex.pc[:savedPC]
		for _, id := range added {
			delete(ex.facts, id)
		}
		ex.factJournal = savedJ
		ex.scratch = false
		ex.curPos = savedPos
		ex.bounds = savedBounds
		ex.rngMemo = nil
		ex.witnesses = savedWit
	}
	okRun := true
	func() {
		defer func() {
			if r := recover(); r != nil {
				if _, bail := r.(accelBail); bail {
					okRun = false
					return
				}
				if _, end := r.(pathEnd); end {
					okRun = false
					return
				}
				restore()
				panic(r)
			}
		}()
		ex.scratch = true
		ex.addPCj(cond)
		for _, ins := range rhs.Instrs {
			switch ins.(type) {
			case *ssa.Jump, *ssa.DebugRef:
			case *ssa.If:
				panic(accelBail{"nested"})
			default:
				ex.exec(sfr, ins)
			}
		}
	}()
	restore()
	if !okRun {
		return nil, false
	}
	// assign phis of the join
	ci, ri := -1, -1
	for i, p := range join.Preds {
		if p == cur {
			ci = i
		}
		if p == rhs {
			ri = i
		}
	}
	if ci < 0 || ri < 0 {
		return nil, false
	}
	tf := ex.tf
	vals := map[*ssa.Phi]Value{}
	for _, ins := range join.Instrs {
		phi, ok := ins.(*ssa.Phi)
		if !ok {
			continue
		}
		var vc, vr Value
		vc = ex.eval(fr, phi.Edges[ci])
		vr = ex.eval(sfr, phi.Edges[ri])
		switch a := vr.(type) {
		case BoolV:
			vals[phi] = BoolV{tf.Ite(cond, a.T, vc.(BoolV).T)}
		case IntV:
			// integer merges are min/max-like selections: forking keeps the per-path arithmetic linear
			if !ex.eng.ifConvInts {
				return nil, false
			}
			vals[phi] = IntV{tf.Ite(cond, a.T, vc.(IntV).T)}
		default:
			return nil, false
		}
	}
	for p, v := range vals {
		fr.locals[p] = v
	}
	return join, true
}

// joinOf: rhs jumps unconditionally to join, and join is the other successor.
func joinOf(rhs, join *ssa.BasicBlock) bool {
	if len(rhs.Succs) != 1 || rhs.Succs[0] != join {
		return false
	}
	return true
}

package main

// Model of encoding/binary.Read / Write / Decode / Size (reflection-based in the
// real library): type-directed fixed-size layout.

import (
	"fmt"
	"go/types"

	"golang.org/x/tools/go/ssa"
)

// fixedSize returns the encoded size of a value of type t, or -1 if not fixed-size.
func fixedSize(t types.Type) int64 {
	switch u := t.Underlying().(type) {
	case *types.Basic:
		switch u.Kind() {
		case types.Bool, types.Int8, types.Uint8:
			return 1
		case types.Int16, types.Uint16:
			return 2
		case types.Int32, types.Uint32, types.Float32:
			return 4
		case types.Int64, types.Uint64, types.Float64:
			return 8
		}
		return -1
	case *types.Array:
		e := fixedSize(u.Elem())
		if e < 0 {
			return -1
		}
		return e * u.Len()
	case *types.Struct:
		var s int64
		for i := 0; i < u.NumFields(); i++ {
			e := fixedSize(u.Field(i).Type())
			if e < 0 {
				return -1
			}
			s += e
		}
		return s
	}
	return -1
}

func isBigEndian(ex *Exec, order Value) bool {
	iv := order.(IfaceV)
	if iv.T == nil {
		panic(unsupported{"nil byte order"})
	}
	s := iv.T.String()
	switch s {
	case "encoding/binary.bigEndian":
		return true
	case "encoding/binary.littleEndian":
		return false
	}
	panic(unsupported{"byte order " + s})
}

// encode appends the bytes of v (type t) to out.
func (ex *Exec) binEncode(v Value, t types.Type, big bool, out *[]*Term) {
	tf := ex.tf
	switch u := t.Underlying().(type) {
	case *types.Basic:
		if u.Kind() == types.Bool {
			*out = append(*out, tf.Ite(v.(BoolV).T, tf.Const(8, 1), tf.Const(8, 0)))
			return
		}
		x := v.(IntV).T
		n := x.w / 8
		for i := 0; i < n; i++ {
			k := i
			if big {
				k = n - 1 - i
			}
			*out = append(*out, tf.Extract(x, 8*k+7, 8*k))
		}
	case *types.Array:
		switch a := v.(type) {
		case BytesV:
			for i := 0; i < a.N; i++ {
				*out = append(*out, ex.layerRead(a.Mem, tf.Const(64, uint64(i))))
			}
		case ArrayV:
			for _, e := range a.E {
				ex.binEncode(e, u.Elem(), big, out)
			}
		}
	case *types.Struct:
		sv := v.(StructV)
		for i := 0; i < u.NumFields(); i++ {
			if u.Field(i).Name() == "_" {
				for k := int64(0); k < fixedSize(u.Field(i).Type()); k++ {
					*out = append(*out, tf.Const(8, 0))
				}
				continue
			}
			ex.binEncode(sv.F[i], u.Field(i).Type(), big, out)
		}
	default:
		panic(unsupported{"binary encode of " + t.String()})
	}
}

// decode reads a value of type t from src at *pos.
func (ex *Exec) binDecode(src func(i int64) *Term, pos *int64, t types.Type, big bool) Value {
	tf := ex.tf
	switch u := t.Underlying().(type) {
	case *types.Basic:
		if u.Kind() == types.Bool {
			b := src(*pos)
			*pos++
			return BoolV{tf.BNot(tf.Eq(b, tf.Const(8, 0)))}
		}
		w, _, _ := intWidth(t)
		n := int64(w / 8)
		var x *Term
		for i := int64(0); i < n; i++ {
			b := src(*pos + i)
			if x == nil {
				x = b
			} else if big {
				x = tf.Concat(x, b)
			} else {
				x = tf.Concat(b, x)
			}
		}
		*pos += n
		return IntV{x}
	case *types.Array:
		if isByteType(u.Elem()) {
			tmp := ex.newBytes(tf.Const(64, uint64(u.Len())), zeroBase)
			for i := int64(0); i < u.Len(); i++ {
				ex.bytesWrite(tmp, tf.Const(64, uint64(i)), src(*pos+i))
			}
			*pos += u.Len()
			return BytesV{Mem: tmp.freeze(), N: int(u.Len())}
		}
		av := ArrayV{E: make([]Value, u.Len())}
		for i := range av.E {
			av.E[i] = ex.binDecode(src, pos, u.Elem(), big)
		}
		return av
	case *types.Struct:
		sv := StructV{F: make([]Value, u.NumFields())}
		for i := range sv.F {
			if u.Field(i).Name() == "_" {
				*pos += fixedSize(u.Field(i).Type())
				sv.F[i] = ex.zero(u.Field(i).Type())
				continue
			}
			sv.F[i] = ex.binDecode(src, pos, u.Field(i).Type(), big)
		}
		return sv
	}
	panic(unsupported{"binary decode of " + t.String()})
}

// binTarget describes the destination of binary.Read/Decode: pointer to fixed type, or slice of fixed type.
func (ex *Exec) binDataSize(data IfaceV) (size int64, elemT types.Type, count int64, isSlice bool) {
	if data.T == nil {
		return -1, nil, 0, false
	}
	switch u := data.T.Underlying().(type) {
	case *types.Pointer:
		s := fixedSize(u.Elem())
		return s, u.Elem(), 1, false
	case *types.Slice:
		es := fixedSize(u.Elem())
		if es < 0 {
			return -1, nil, 0, true
		}
		sl := data.V.(SliceV)
		n := ex.concretize(sl.Len, "binary slice length")
		return es * int64(n), u.Elem(), int64(n), true
	}
	return -1, nil, 0, false
}

func (ex *Exec) binStoreDecoded(data IfaceV, src func(i int64) *Term, big bool) {
	_, elemT, count, isSlice := ex.binDataSize(data)
	var pos int64
	if !isSlice {
		p := data.V.(PtrV)
		if p.N == nil {
			ex.fail("nil", ex.posStr(ex.curPos), "binary decode into nil pointer")
		}
		// blank fields keep their old value in the real implementation (they are skipped)
		v := ex.binDecode(src, &pos, elemT, big)
		ex.storeSkippingBlanks(p, v, elemT)
		return
	}
	sl := data.V.(SliceV)
	if count == 0 {
		return
	}
	off := ex.concretize(sl.Off, "binary slice offset")
	switch a := sl.Arr.(type) {
	case *ArrayNode:
		for i := int64(0); i < count; i++ {
			ex.storeNode(a.E[off+uint64(i)], ex.binDecode(src, &pos, elemT, big))
		}
	case *BytesNode:
		for i := int64(0); i < count; i++ {
			ex.bytesWrite(a, ex.tf.Const(64, off+uint64(i)), src(i))
		}
	}
}

func (ex *Exec) storeSkippingBlanks(p PtrV, v Value, t types.Type) {
	if st, ok := t.Underlying().(*types.Struct); ok && !p.Elem {
		if sn, ok := p.N.(*StructNode); ok {
			sv := v.(StructV)
			for i := 0; i < st.NumFields(); i++ {
				if st.Field(i).Name() == "_" {
					continue
				}
				ex.storeSkippingBlanks(PtrV{N: sn.F[i]}, sv.F[i], st.Field(i).Type())
			}
			return
		}
	}
	ex.store(p, v)
}

func (ex *Exec) invalidTypeErr(what string, t types.Type) IfaceV {
	ts := "<nil>"
	if t != nil {
		ts = t.String()
	}
	return ex.newError("binary." + what + ": some values are not fixed-sized in type " + ts)
}

func intrBinaryRead(ex *Exec, fn *ssa.Function, args []Value) Value {
	r := args[0].(IfaceV)
	big := isBigEndian(ex, args[1])
	data := args[2].(IfaceV)
	size, _, _, _ := ex.binDataSize(data)
	if size < 0 {
		return ex.invalidTypeErr("Read", data.T)
	}
	tf := ex.tf
	buf := ex.newBytes(tf.Const(64, uint64(size)), zeroBase)
	sl := SliceV{Arr: buf, Off: tf.Const(64, 0), Len: buf.n, Cap: buf.n}
	readFull := ex.eng.pkgFunc("io", "ReadFull")
	res := ex.call(readFull, []Value{r, sl}, nil).(TupleV)
	if err := res[1].(IfaceV); err.T != nil {
		return err
	}
	ex.binStoreDecoded(data, func(i int64) *Term { return ex.bytesRead(buf, tf.Const(64, uint64(i))) }, big)
	return IfaceV{}
}

func intrBinaryDecode(ex *Exec, fn *ssa.Function, args []Value) Value {
	tf := ex.tf
	buf := args[0].(SliceV)
	big := isBigEndian(ex, args[1])
	data := args[2].(IfaceV)
	size, _, _, _ := ex.binDataSize(data)
	if size < 0 {
		return TupleV{IntV{tf.Const(64, 0)}, ex.invalidTypeErr("Decode", data.T)}
	}
	if !ex.branch(tf.Ule(tf.Const(64, uint64(size)), buf.Len)) {
		return TupleV{IntV{tf.Const(64, 0)}, ex.sentinel("encoding/binary.errBufferTooSmall")}
	}
	if size > 0 {
		bn := buf.Arr.(*BytesNode)
		ex.binStoreDecoded(data, func(i int64) *Term { return ex.bytesRead(bn, tf.Add(buf.Off, tf.Const(64, uint64(i)))) }, big)
	}
	return TupleV{IntV{tf.Const(64, uint64(size))}, IfaceV{}}
}

func intrBinaryWrite(ex *Exec, fn *ssa.Function, args []Value) Value {
	tf := ex.tf
	w := args[0].(IfaceV)
	big := isBigEndian(ex, args[1])
	data := args[2].(IfaceV)
	var out []*Term
	if data.T == nil {
		return ex.invalidTypeErr("Write", nil)
	}
	t := data.T
	v := data.V
	if p, ok := t.Underlying().(*types.Pointer); ok {
		t = p.Elem()
		pv := v.(PtrV)
		if pv.N == nil {
			return ex.invalidTypeErr("Write", data.T)
		}
		v = ex.load(pv)
	}
	if sl, ok := t.Underlying().(*types.Slice); ok {
		es := fixedSize(sl.Elem())
		if es < 0 {
			return ex.invalidTypeErr("Write", data.T)
		}
		sv := v.(SliceV)
		n := ex.concretize(sv.Len, "binary slice length")
		off := ex.concretize(sv.Off, "binary slice offset")
		for i := uint64(0); i < n; i++ {
			switch a := sv.Arr.(type) {
			case *ArrayNode:
				ex.binEncode(ex.loadNode(a.E[off+i]), sl.Elem(), big, &out)
			case *BytesNode:
				out = append(out, ex.bytesRead(a, tf.Const(64, off+i)))
			}
		}
	} else {
		if fixedSize(t) < 0 {
			return ex.invalidTypeErr("Write", data.T)
		}
		ex.binEncode(v, t, big, &out)
	}
	buf := ex.newBytes(tf.Const(64, uint64(len(out))), zeroBase)
	for i, b := range out {
		ex.bytesWrite(buf, tf.Const(64, uint64(i)), b)
	}
	sl := SliceV{Arr: buf, Off: tf.Const(64, 0), Len: buf.n, Cap: buf.n}
	res := ex.invoke(w, "Write", sl).(TupleV)
	return res[1]
}

func intrBinarySize(ex *Exec, fn *ssa.Function, args []Value) Value {
	data := args[0].(IfaceV)
	if data.T == nil {
		return IntV{ex.tf.Const(64, ^uint64(0))}
	}
	t := data.T
	if p, ok := t.Underlying().(*types.Pointer); ok {
		t = p.Elem()
	}
	if sl, ok := t.Underlying().(*types.Slice); ok {
		es := fixedSize(sl.Elem())
		if es < 0 {
			return IntV{ex.tf.Const(64, ^uint64(0))}
		}
		var sv SliceV
		if pv, ok := data.V.(PtrV); ok {
			sv = ex.load(pv).(SliceV)
		} else {
			sv = data.V.(SliceV)
		}
		return IntV{ex.tf.Mul(sv.Len, ex.tf.Const(64, uint64(es)))}
	}
	s := fixedSize(t)
	if s < 0 {
		return IntV{ex.tf.Const(64, ^uint64(0))}
	}
	return IntV{ex.tf.Const(64, uint64(s))}
}

var _ = fmt.Sprint

package main

// The path-wise symbolic interpreter for go/ssa functions.

import (
	"fmt"
	"go/constant"
	"go/token"
	"go/types"
	"os"
	"path/filepath"
	"sort"
	"strings"
	"time"

	"golang.org/x/tools/go/ssa"
)

type pathEnd struct{ why string }
type unsupported struct{ msg string }

type Violation struct {
	Harness string
	Kind    string // assert | panic | index | slice | nil | div | alloc | typeassert
	Label   string // assert label or source position
	Detail  string
	Model   *Model
	Path    []int
	PCSize  int
	Choices map[string]uint64
	Pkg     string
	PkgDir  string
}

func (v *Violation) Sig() string { return v.Harness + "|" + v.Kind + "|" + v.Label }

type oblNote struct {
	sig string
	res Res
	who string
}

type frame struct {
	fn     *ssa.Function
	locals map[ssa.Value]Value
	defers []func()
	visits map[*ssa.BasicBlock]int
	symDec map[*ssa.BasicBlock]int
}

type Exec struct {
	tf                *TF
	eng               *Engine
	prog              *ssa.Program
	solver            *Solver
	harness           string
	pc                []*Term
	facts             map[int]bool
	prefix            []int
	decs              []int
	alts              [][]int
	globals           map[*ssa.Global]Node
	readMemo          map[[2]int]*Term
	labelSeq          map[string]int
	objCounter        int
	steps             int
	depth             int
	stack             []*ssa.Function
	violations        []*Violation
	reached           map[string]bool
	observed          []string
	inits             map[*ssa.Package]bool
	concrete          map[string]uint64 // concrete mode: values for nondeterministic primitives
	concMode          bool
	unwind            int
	accel             []string
	intrUsed          map[string]bool
	funcsRun          map[*ssa.Function]bool
	assumedKnown      map[string]bool
	curPos            token.Pos
	sentinels         map[string]Value
	pool              map[Node][]Value
	timeSeq           int
	harnessPkg        *ssa.Package
	bypass            map[*ssa.Function]bool
	onceDone          map[Node]bool
	syncMaps          map[Node]*MapObj
	uniques           []uniqueEntry
	goQueue           []func() // goroutines started and not yet run (sched.go)
	inGoroutine       int
	allowGo           bool
	lastNow           *Term
	choiceVals        map[string]uint64
	scratch           bool
	nativeUnsupported bool
	concreteCopies    bool
	pins              map[string]uint64
	witnesses         []*witness
	pendingNotes      []oblNote
	bounds            map[int]rng
	rngMemo           map[int]rng
	factJournal       *[]int
	accelSeq          int
	harnessFn         *ssa.Function
}

func (ex *Exec) posStr(p token.Pos) string {
	if !p.IsValid() {
		return "?"
	}
	pp := ex.prog.Fset.Position(p)
	f := pp.Filename
	for _, pre := range []string{ex.eng.repoDir + "/", ex.eng.gomodcache + "/", ex.eng.goroot + "/src/"} {
		if strings.HasPrefix(f, pre) {
			f = f[len(pre):]
			break
		}
	}
	return fmt.Sprintf("%s:%d", f, pp.Line)
}

// ---------- path condition handling ----------

func (ex *Exec) addPC(c *Term) {
	if c.IsTrue() {
		return
	}
	if c.op == OpBAnd {
		for _, a := range c.args {
			ex.addPC(a)
		}
		return
	}
	if ex.facts[c.id] {
		return
	}
	ex.pc = append(ex.pc, c)
	ex.learn(c)
	ex.filterWitnesses(c)
}

// filterWitnesses keeps the cached models that still satisfy the path condition extended by c.
func (ex *Exec) filterWitnesses(c *Term) {
	if len(ex.witnesses) == 0 {
		return
	}
	kept := ex.witnesses[:0]
	for _, w := range ex.witnesses {
		if v, ok := w.holdsIn(c); ok && v {
			kept = append(kept, w)
		}
	}
	ex.witnesses = kept
}

func (ex *Exec) known(c *Term) (val bool, ok bool) {
	if c.IsTrue() {
		return true, true
	}
	if c.IsFalse() {
		return false, true
	}
	if ex.facts[c.id] {
		return true, true
	}
	if ex.facts[ex.tf.BNot(c).id] {
		return false, true
	}
	if v, ok := ex.rangeDecide(c); ok {
		return v, true
	}
	switch c.op {
	case OpBAnd:
		all := true
		for _, a := range c.args {
			v, ok := ex.known(a)
			if ok && !v {
				return false, true
			}
			if !ok {
				all = false
			}
		}
		if all {
			return true, true
		}
	case OpBOr:
		none := true
		for _, a := range c.args {
			v, ok := ex.known(a)
			if ok && v {
				return true, true
			}
			if !ok {
				none = false
			}
		}
		if none {
			return false, true
		}
	case OpBNot:
		if v, ok := ex.known(c.args[0]); ok {
			return !v, true
		}
	}
	return false, false
}

func (ex *Exec) simplifyUnderPC(c *Term) *Term {
	if v, ok := ex.known(c); ok {
		return ex.tf.Bool(v)
	}
	if c.op == OpBAnd {
		var rest []*Term
		for _, a := range c.args {
			if v, ok := ex.known(a); ok {
				if !v {
					return ex.tf.False
				}
				continue
			}
			rest = append(rest, a)
		}
		return ex.tf.BAnd(rest...)
	}
	return c
}

func (ex *Exec) feasible(c *Term) bool {
	if v, ok := ex.known(c); ok {
		return v
	}
	pc := ex.slice(c)
	k := pcKey(pc, c)
	qcacheMu.Lock()
	r, ok := qcache[k]
	qcacheMu.Unlock()
	st := ex.eng.stats
	if ok {
		st.mu.Lock()
		st.CacheHits++
		st.mu.Unlock()
		return r != Unsat
	}
	if ex.guessSat(pc, c) {
		st.mu.Lock()
		st.WitnessHits++
		st.mu.Unlock()
		qcacheMu.Lock()
		qcache[k] = Sat
		qcacheMu.Unlock()
		return true
	}
	r, _ = ex.solver.Check(pc, c, false)
	st.mu.Lock()
	st.Feas++
	switch r {
	case Sat:
		st.SatN++
	case Unsat:
		st.UnsatN++
	default:
		st.UnknownN++
	}
	st.mu.Unlock()
	qcacheMu.Lock()
	qcache[k] = r
	qcacheMu.Unlock()
	return r != Unsat
}

// branch decides a (possibly symbolic) condition, forking when both sides are feasible.
func (ex *Exec) branch(c *Term) bool {
	if v, ok := ex.known(c); ok {
		return v
	}
	if ex.scratch {
		panic(accelBail{"symbolic branch in accelerated iteration"})
	}
	nc := ex.tf.BNot(c)
	if len(ex.decs) < len(ex.prefix) {
		d := ex.prefix[len(ex.decs)]
		ex.decs = append(ex.decs, d)
		switch d {
		case 1:
			ex.addPC(c)
			return true
		case 0:
			ex.addPC(nc)
			return false
		case 3: // forced true
			ex.learn(c)
			return true
		case 2:
			ex.learn(nc)
			return false
		}
		panic("bad decision")
	}
	ft := ex.feasible(c)
	ff := true // the path condition is feasible, so if c is impossible its negation is possible
	if ft {
		ff = ex.feasible(nc)
	}
	switch {
	case ft && ff:
		alt := append(append([]int{}, ex.decs...), 0)
		ex.alts = append(ex.alts, alt)
		ex.decs = append(ex.decs, 1)
		ex.addPC(c)
		return true
	case ft:
		ex.decs = append(ex.decs, 3)
		ex.learn(c)
		return true
	case ff:
		ex.decs = append(ex.decs, 2)
		ex.learn(nc)
		return false
	}
	panic(pathEnd{"infeasible"})
}

// choice forks n ways on a concrete value (no solver involved).
func (ex *Exec) choice(n int) int {
	if n <= 1 {
		return 0
	}
	if ex.scratch {
		panic(accelBail{"choice in accelerated iteration"})
	}
	if len(ex.decs) < len(ex.prefix) {
		d := ex.prefix[len(ex.decs)]
		ex.decs = append(ex.decs, d)
		return d - 10
	}
	for i := 1; i < n; i++ {
		ex.alts = append(ex.alts, append(append([]int{}, ex.decs...), 10+i))
	}
	ex.decs = append(ex.decs, 10)
	return 0
}

func (ex *Exec) assume(c *Term) {
	if v, ok := ex.known(c); ok {
		if !v {
			panic(pathEnd{"assume false"})
		}
		return
	}
	if !ex.feasible(c) {
		panic(pathEnd{"assume infeasible"})
	}
	ex.addPC(c)
}

// require is a proof obligation: cond must hold on every model of the path condition.
func (ex *Exec) require(cond *Term, kind, label, detail string) {
	sig := ex.harness + "|" + kind + "|" + label
	if v, ok := ex.known(cond); ok && v {
		if kind == "assert" && !ex.scratch {
			ex.eng.noteObligation(sig, Unsat, "constant-folding/path-facts")
		}
		return
	}
	nc := ex.tf.BNot(cond)
	res, model, who := ex.decideObligation(nc)
	if ex.scratch {
		ex.pendingNotes = append(ex.pendingNotes, oblNote{sig, res, who})
	} else {
		ex.eng.noteObligation(sig, res, who)
	}
	switch res {
	case Unsat:
		ex.learn(cond)
		return
	case Unknown:
		ex.eng.inconclusive(fmt.Sprintf("%s: obligation %s %s undecided (solver unknown/timeout)", ex.harness, kind, label))
		ex.assume(cond)
		return
	}
	ex.violations = append(ex.violations, &Violation{Harness: ex.harness, Kind: kind, Label: label, Detail: detail,
		Model: model, Path: append([]int{}, ex.decs...), PCSize: len(ex.pc), Choices: ex.copyChoices(), Pkg: ex.harnessPkg.Pkg.Name(), PkgDir: ex.harnessDir()})
	// continue under the assumption that the obligation holds, so later obligations are still examined
	ex.assume(cond)
}

func (ex *Exec) decideObligation(nc *Term) (Res, *Model, string) {
	st := ex.eng.stats
	if v, ok := ex.known(nc); ok {
		if !v {
			return Unsat, nil, "facts"
		}
	}
	pc := ex.slice(nc)
	k := pcKey(pc, nc)
	qcacheMu.Lock()
	r, ok := qcache[k]
	qcacheMu.Unlock()
	if ok && r == Unsat {
		st.mu.Lock()
		st.CacheHits++
		st.mu.Unlock()
		return Unsat, nil, "cache"
	}
	ex.solver.expectUnsat = true
	r, _ = ex.solver.Check(pc, nc, false)
	ex.solver.expectUnsat = false
	who := ex.solver.lastWho
	var m *Model
	if r == Sat {
		// counterexample: get a model of the whole path condition (the slice leaves unrelated inputs unconstrained)
		var r2 Res
		r2, m = ex.solver.Check(ex.pc, nc, true)
		if r2 != Sat {
			m = nil
		}
	}
	st.mu.Lock()
	st.Assertion++
	st.mu.Unlock()
	// thorough tier: a deterministic 1-in-8 sample of the obligation queries is re-decided by the whole portfolio
	// (z3, z3-new, cvc5 int-blast); checking every query tripled the run time without ever finding a disagreement
	if r != Unknown && ex.eng.tier == "thorough" && ex.eng.crossCheck && nc.h1%8 == 0 {
		r2, who2 := Portfolio(pc, nc, 300*time.Second, true, st)
		if r2 != Unknown && r2 != r {
			fmt.Fprintf(os.Stderr, "SOLVER DISAGREEMENT %s=%v portfolio(%s)=%v\n", who, r, who2, r2)
			r = Unknown
		}
	}
	st.mu.Lock()
	switch r {
	case Sat:
		st.SatN++
	case Unsat:
		st.UnsatN++
	default:
		st.UnknownN++
	}
	st.mu.Unlock()
	qcacheMu.Lock()
	qcache[k] = r
	qcacheMu.Unlock()
	return r, m, who
}

// fail reports a definite failure on the current path (the path condition is feasible by construction).
func (ex *Exec) fail(kind, label, detail string) {
	_, m := ex.solver.Check(ex.pc, ex.tf.True, true)
	ex.eng.noteObligation(ex.harness+"|"+kind+"|"+label, Sat, "path")
	ex.violations = append(ex.violations, &Violation{Harness: ex.harness, Kind: kind, Label: label, Detail: detail,
		Model: m, Path: append([]int{}, ex.decs...), PCSize: len(ex.pc), Choices: ex.copyChoices(), Pkg: ex.harnessPkg.Pkg.Name(), PkgDir: ex.harnessDir()})
	panic(pathEnd{"failed: " + kind + " " + label})
}

// upperBound finds a concrete upper bound of an unsigned term from simple facts (x <u c, x <=u c) in the path condition.
func (ex *Exec) upperBound(t *Term) (uint64, bool) {
	if t.IsConst() {
		return t.val, true
	}
	best, ok := uint64(0), false
	for _, c := range ex.pc {
		var b uint64
		found := false
		switch c.op {
		case OpUlt, OpSlt:
			if c.args[0] == t && c.args[1].IsConst() && c.args[1].SVal() > 0 {
				b, found = c.args[1].val-1, true
			}
		case OpUle, OpSle:
			if c.args[0] == t && c.args[1].IsConst() && c.args[1].SVal() >= 0 {
				b, found = c.args[1].val, true
			}
		case OpBNot:
			in := c.args[0]
			if (in.op == OpUlt || in.op == OpSlt) && in.args[1] == t && in.args[0].IsConst() && in.args[0].SVal() >= 0 {
				b, found = in.args[0].val, true // !(c < t)  => t <= c
			}
			if (in.op == OpUle || in.op == OpSle) && in.args[1] == t && in.args[0].IsConst() && in.args[0].SVal() > 0 {
				b, found = in.args[0].val-1, true
			}
		case OpEq:
			if c.args[0] == t && c.args[1].IsConst() {
				b, found = c.args[1].val, true
			}
		}
		if found && (!ok || b < best) {
			best, ok = b, true
		}
	}
	if ok && best > 1<<16 {
		return 0, false
	}
	return best, ok
}

// concretize forks over the feasible values of a small-range term and returns its concrete value on this path.
func (ex *Exec) concretize(t *Term, what string) uint64 {
	if t.IsConst() {
		return t.val
	}
	ub, ok := ex.upperBound(t)
	if !ok {
		if r := ex.rangeOf(t); r.lo >= 0 && r.hi <= 64 {
			ub, ok = uint64(r.hi), true
		}
	}
	if !ok || ub > 64 {
		// no syntactic bound: enumerate semantically (the solver decides which values are possible)
		ub = 64
	}
	for v := uint64(0); v <= ub; v++ {
		if ex.branch(ex.tf.Eq(t, ex.tf.Const(t.w, v))) {
			return v
		}
	}
	if ex.feasible(ex.tf.True) {
		panic(unsupported{"cannot concretise " + what + " (more than 64 possible values): " + clip(t.String(), 200)})
	}
	panic(pathEnd{"concretize exhausted"})
}

// ---------- calls ----------

func (ex *Exec) callFunc(fv FuncV, args []Value, pos token.Pos) Value {
	if fv.Nat != nil {
		return fv.Nat(ex, args)
	}
	if fv.Fn == nil {
		ex.fail("nil", ex.posStr(pos), "call of nil function")
	}
	return ex.call(fv.Fn, args, fv.Bind)
}

func (ex *Exec) call(fn *ssa.Function, args []Value, bind []Value) Value {
	if !ex.bypass[fn] {
		if in := lookupIntrinsic(ex, fn); in != nil {
			name := fn.String()
			if !strings.Contains(name, "/internal/verifrt.") {
				ex.intrUsed[name] = true
			}
			return in(ex, fn, args)
		}
	} else if nat := nativeCall(ex, fn, args); nat != nil {
		return nat.v
	}
	if fn.Name() == "init" && fn.Pkg != nil && fn.Signature.Recv() == nil && !ex.eng.isRepoPkg(fn.Pkg.Pkg.Path()) {
		return nil // initialisers of dependencies are not run; their globals are provided lazily (globalNode)
	}
	if fn.Blocks == nil {
		panic(unsupported{"external function without body: " + fn.String()})
	}
	if ex.depth > 200 {
		panic(unsupported{"call depth exceeded at " + fn.String()})
	}
	ex.funcsRun[fn] = true
	ex.depth++
	ex.stack = append(ex.stack, fn)
	defer func() { ex.depth--; ex.stack = ex.stack[:len(ex.stack)-1] }()
	fr := &frame{fn: fn, locals: make(map[ssa.Value]Value, 32), visits: map[*ssa.BasicBlock]int{}, symDec: map[*ssa.BasicBlock]int{}}
	for i, p := range fn.Params {
		fr.locals[p] = args[i]
	}
	for i, fv := range fn.FreeVars {
		fr.locals[fv] = bind[i]
	}
	var prev *ssa.BasicBlock
	block := fn.Blocks[0]
	skipPhis := false
	for {
		fr.visits[block]++
		if fr.visits[block] > ex.eng.maxVisits {
			panic(unsupported{fmt.Sprintf("loop bound exceeded (%d iterations) in %s block %d", ex.eng.maxVisits, fn.String(), block.Index)})
		}
		if !ex.eng.noAccel && prev != nil && len(block.Instrs) > 0 {
			if nb, ok := ex.tryAccelerate(fr, block, prev); ok {
				prev, block = block, nb
				continue
			}
		}
		var next *ssa.BasicBlock
		phisDone := skipPhis
		skipPhis = false
		for _, ins := range block.Instrs {
			ex.steps++
			if ex.steps > ex.eng.maxSteps {
				panic(unsupported{"step budget exceeded"})
			}
			if p := ins.Pos(); p.IsValid() {
				ex.curPos = p
			}
			switch ins := ins.(type) {
			case *ssa.Phi:
				if phisDone {
					continue
				}
				idx := -1
				for i, p := range block.Preds {
					if p == prev {
						idx = i
						break
					}
				}
				fr.locals[ins] = ex.eval(fr, ins.Edges[idx])
				continue
			case *ssa.If:
				c := ex.eval(fr, ins.Cond).(BoolV).T
				if !c.IsConst() {
					if _, ok := ex.known(c); !ok {
						if j, ok := ex.tryIfConv(fr, block, c); ok {
							next = j
							skipPhis = true
							break
						}
						fr.symDec[block]++
						if fr.symDec[block] > ex.unwind {
							panic(unsupported{fmt.Sprintf("unwinding bound %d exceeded at %s (%s)", ex.unwind, ex.posStr(ex.curPos), fn.String())})
						}
					}
				}
				if ex.branch(c) {
					next = block.Succs[0]
				} else {
					next = block.Succs[1]
				}
			case *ssa.Jump:
				next = block.Succs[0]
			case *ssa.Return:
				switch len(ins.Results) {
				case 0:
					return nil
				case 1:
					return ex.eval(fr, ins.Results[0])
				}
				tv := make(TupleV, len(ins.Results))
				for i, r := range ins.Results {
					tv[i] = ex.eval(fr, r)
				}
				return tv
			case *ssa.Panic:
				v := ex.eval(fr, ins.X)
				ex.fail("panic", ex.posStr(ins.Pos()), "explicit panic: "+ex.describe(v))
			case *ssa.RunDefers:
				for len(fr.defers) > 0 {
					d := fr.defers[len(fr.defers)-1]
					fr.defers = fr.defers[:len(fr.defers)-1]
					d()
				}
				continue
			default:
				ex.exec(fr, ins)
				continue
			}
			break
		}
		prev, block = block, next
	}
}

func (ex *Exec) describe(v Value) string {
	switch v := v.(type) {
	case IfaceV:
		if v.T == nil {
			return "nil"
		}
		return v.T.String() + " " + ex.describe(v.V)
	case StrV:
		if s, ok := ex.strConcrete(v); ok {
			return fmt.Sprintf("%q", s)
		}
		return "<symbolic string>"
	case IntV:
		return v.T.String()
	}
	return fmt.Sprintf("%T", v)
}

func (ex *Exec) eval(fr *frame, v ssa.Value) Value {
	switch v := v.(type) {
	case *ssa.Const:
		return ex.constVal(v)
	case *ssa.Function:
		return FuncV{Fn: v}
	case *ssa.Global:
		return PtrV{N: ex.globalNode(v)}
	case *ssa.Builtin:
		b := v
		return FuncV{Nat: func(ex *Exec, args []Value) Value { return ex.builtin(b, args, nil) }}
	}
	r, ok := fr.locals[v]
	if !ok {
		panic(fmt.Sprintf("eval: no value for %s (%T) in %s", v.Name(), v, fr.fn))
	}
	return r
}

func (ex *Exec) constVal(c *ssa.Const) Value {
	t := c.Type()
	if c.Value == nil {
		return ex.zero(t)
	}
	if w, _, ok := intWidth(t); ok {
		if c.Value.Kind() == constant.Float {
			f, _ := constant.Float64Val(c.Value)
			return IntV{ex.tf.Const(w, uint64(int64(f)))}
		}
		if i, exact := constant.Int64Val(constant.ToInt(c.Value)); exact {
			return IntV{ex.tf.Const(w, uint64(i))}
		}
		u, _ := constant.Uint64Val(constant.ToInt(c.Value))
		return IntV{ex.tf.Const(w, u)}
	}
	b := t.Underlying().(*types.Basic)
	switch {
	case b.Info()&types.IsBoolean != 0:
		return BoolV{ex.tf.Bool(constant.BoolVal(c.Value))}
	case b.Info()&types.IsString != 0:
		return concStr(constant.StringVal(c.Value))
	case b.Info()&types.IsFloat != 0:
		f, _ := constant.Float64Val(c.Value)
		return FloatV{f}
	}
	panic(unsupported{"constant of type " + t.String()})
}

// ---------- globals ----------

func (ex *Exec) globalNode(g *ssa.Global) Node {
	if n, ok := ex.globals[g]; ok {
		return n
	}
	elemT := g.Type().(*types.Pointer).Elem()
	n := ex.newNode(elemT)
	ex.globals[g] = n
	if g.Pkg != nil && ex.eng.isRepoPkg(g.Pkg.Pkg.Path()) {
		ex.runInit(g.Pkg)
		return n
	}
	// dependency / standard library global: natively provided, sentinel error, or unsupported
	full := g.Pkg.Pkg.Path() + "." + g.Name()
	if v, ok := nativeGlobal(ex, full, elemT); ok {
		ex.storeNode(n, v)
		return n
	}
	if types.Identical(elemT, types.Universe.Lookup("error").Type()) {
		ex.storeNode(n, ex.sentinel(full))
		return n
	}
	if st, ok := elemT.Underlying().(*types.Struct); ok && st.NumFields() == 0 {
		return n
	}
	if strings.HasSuffix(g.Name(), "$guard") {
		return n
	}
	where := ""
	if len(ex.stack) > 0 {
		where = " in " + ex.stack[len(ex.stack)-1].String()
	}
	panic(unsupported{"read of uninitialised dependency global " + full + where})
}

// sentinel returns the opaque error value standing for a named package-level error variable.
func (ex *Exec) sentinel(name string) Value {
	name = canonicalSentinel(name)
	if v, ok := ex.sentinels[name]; ok {
		return v
	}
	v := ex.newError(name)
	ex.sentinels[name] = v
	return v
}

func canonicalSentinel(n string) string {
	switch n {
	case "os.ErrNotExist", "io/fs.ErrNotExist", "github.com/spf13/afero.ErrFileNotFound":
		return "internal/oserror.ErrNotExist"
	case "os.ErrExist", "io/fs.ErrExist", "github.com/spf13/afero.ErrFileExists":
		return "internal/oserror.ErrExist"
	case "os.ErrPermission", "io/fs.ErrPermission":
		return "internal/oserror.ErrPermission"
	case "os.ErrInvalid", "io/fs.ErrInvalid":
		return "internal/oserror.ErrInvalid"
	case "os.ErrClosed", "io/fs.ErrClosed", "github.com/spf13/afero.ErrFileClosed":
		return "internal/oserror.ErrClosed"
	case "path/filepath.SkipDir":
		return "io/fs.SkipDir"
	case "path/filepath.SkipAll":
		return "io/fs.SkipAll"
	}
	return n
}

func (ex *Exec) runInit(pkg *ssa.Package) {
	if ex.inits[pkg] {
		return
	}
	ex.inits[pkg] = true
	initFn := pkg.Func("init")
	if initFn == nil {
		return
	}
	saved := ex.curPos
	ex.call(initFn, nil, nil)
	ex.curPos = saved
}

// ---------- instructions ----------

func (ex *Exec) exec(fr *frame, ins ssa.Instruction) {
	tf := ex.tf
	switch ins := ins.(type) {
	case *ssa.DebugRef:
	case *ssa.Alloc:
		t := ins.Type().(*types.Pointer).Elem()
		fr.locals[ins] = PtrV{N: ex.newNode(t)}
	case *ssa.BinOp:
		fr.locals[ins] = ex.binop(ins.Op, ex.eval(fr, ins.X), ex.eval(fr, ins.Y), ins.X.Type(), ins.Pos())
	case *ssa.UnOp:
		x := ex.eval(fr, ins.X)
		switch ins.Op {
		case token.MUL:
			p := x.(PtrV)
			if p.N == nil {
				ex.fail("nil", ex.posStr(ex.curPos), "nil pointer dereference (load)")
			}
			fr.locals[ins] = ex.load(p)
		case token.NOT:
			fr.locals[ins] = BoolV{tf.BNot(x.(BoolV).T)}
		case token.SUB:
			switch x := x.(type) {
			case IntV:
				fr.locals[ins] = IntV{tf.Neg(x.T)}
			case FloatV:
				fr.locals[ins] = FloatV{-x.F}
			}
		case token.XOR:
			fr.locals[ins] = IntV{tf.Not(x.(IntV).T)}
		case token.ARROW:
			c, _ := x.(ChanV)
			for c.C == nil || (len(c.C.queue) == 0 && !c.C.closed) {
				ex.blocked("channel receive", ins.Pos())
			}
			var v Value
			okv := tf.True
			if len(c.C.queue) > 0 {
				v = c.C.queue[0]
				c.C.queue = c.C.queue[1:]
			} else { // closed and drained
				v = ex.zero(ins.X.Type().Underlying().(*types.Chan).Elem())
				okv = tf.False
			}
			if ins.CommaOk {
				fr.locals[ins] = TupleV{v, BoolV{okv}}
			} else {
				fr.locals[ins] = v
			}
		default:
			panic(unsupported{"unop " + ins.Op.String()})
		}
	case *ssa.Call:
		fr.locals[ins] = ex.callCommon(fr, &ins.Call, ins.Pos())
	case *ssa.Defer:
		cc := ins.Call
		// evaluate now, run later
		fnv, args := ex.prepareCall(fr, &cc)
		pos := ins.Pos()
		fr.defers = append(fr.defers, func() { ex.callFunc(fnv, args, pos) })
	case *ssa.Go:
		// cooperative schedule (see sched.go): the new goroutine is queued; it runs to completion when the
		// spawning code blocks on a channel operation, or at verifrt.Yield / the end of the harness
		if !ex.allowGo {
			panic(unsupported{"go statement at " + ex.posStr(ins.Pos())})
		}
		cc := ins.Call
		fnv, args := ex.prepareCall(fr, &cc)
		pos := ins.Pos()
		ex.goQueue = append(ex.goQueue, func() { ex.callFunc(fnv, args, pos) })
	case *ssa.ChangeInterface:
		fr.locals[ins] = ex.eval(fr, ins.X)
	case *ssa.ChangeType:
		fr.locals[ins] = ex.eval(fr, ins.X)
	case *ssa.Convert:
		fr.locals[ins] = ex.convert(ex.eval(fr, ins.X), ins.X.Type(), ins.Type())
	case *ssa.MultiConvert:
		fr.locals[ins] = ex.convert(ex.eval(fr, ins.X), ins.X.Type(), ins.Type())
	case *ssa.Extract:
		fr.locals[ins] = ex.eval(fr, ins.Tuple).(TupleV)[ins.Index]
	case *ssa.Field:
		fr.locals[ins] = ex.eval(fr, ins.X).(StructV).F[ins.Field]
	case *ssa.FieldAddr:
		p := ex.eval(fr, ins.X).(PtrV)
		if p.N == nil {
			ex.fail("nil", ex.posStr(ex.curPos), "nil pointer dereference (field address)")
		}
		sn, ok := p.N.(*StructNode)
		if !ok {
			panic(fmt.Sprintf("FieldAddr on %T at %s", p.N, ex.posStr(ex.curPos)))
		}
		fr.locals[ins] = PtrV{N: sn.F[ins.Field]}
	case *ssa.Index:
		x := ex.eval(fr, ins.X)
		idx := ex.toIndex(ex.eval(fr, ins.Index), ins.Index.Type())
		switch x := x.(type) {
		case ArrayV:
			ex.require(tf.Ult(idx, tf.Const(64, uint64(len(x.E)))), "index", ex.posStr(ex.curPos), "array index out of range")
			fr.locals[ins] = ex.selectVal(x.E, idx)
		case BytesV:
			ex.require(tf.Ult(idx, tf.Const(64, uint64(x.N))), "index", ex.posStr(ex.curPos), "array index out of range")
			fr.locals[ins] = IntV{ex.layerRead(x.Mem, idx)}
		case StrV:
			ex.require(tf.Ult(idx, ex.strLen(x)), "index", ex.posStr(ex.curPos), "string index out of range")
			fr.locals[ins] = IntV{ex.strByte(x, idx)}
		default:
			panic(unsupported{fmt.Sprintf("Index on %T", x)})
		}
	case *ssa.IndexAddr:
		x := ex.eval(fr, ins.X)
		idx := ex.toIndex(ex.eval(fr, ins.Index), ins.Index.Type())
		fr.locals[ins] = ex.indexAddr(x, idx)
	case *ssa.Lookup:
		x := ex.eval(fr, ins.X)
		switch x := x.(type) {
		case StrV:
			idx := ex.toIndex(ex.eval(fr, ins.Index), ins.Index.Type())
			ex.require(tf.Ult(idx, ex.strLen(x)), "index", ex.posStr(ex.curPos), "string index out of range")
			fr.locals[ins] = IntV{ex.strByte(x, idx)}
		case MapV:
			k := ex.eval(fr, ins.Index)
			v, found := ex.mapGet(x, k)
			if !found {
				v = ex.zero(ins.X.Type().Underlying().(*types.Map).Elem())
			}
			if ins.CommaOk {
				fr.locals[ins] = TupleV{v, BoolV{tf.Bool(found)}}
			} else {
				fr.locals[ins] = v
			}
		default:
			panic(unsupported{fmt.Sprintf("Lookup on %T", x)})
		}
	case *ssa.MakeClosure:
		bind := make([]Value, len(ins.Bindings))
		for i, b := range ins.Bindings {
			bind[i] = ex.eval(fr, b)
		}
		fr.locals[ins] = FuncV{Fn: ins.Fn.(*ssa.Function), Bind: bind}
	case *ssa.MakeInterface:
		fr.locals[ins] = IfaceV{T: ins.X.Type(), V: ex.eval(fr, ins.X)}
	case *ssa.MakeMap:
		fr.locals[ins] = MapV{M: &MapObj{}}
	case *ssa.MapUpdate:
		m := ex.eval(fr, ins.Map).(MapV)
		if m.M == nil {
			ex.fail("nil", ex.posStr(ex.curPos), "assignment to entry in nil map")
		}
		ex.mapSet(m, ex.eval(fr, ins.Key), ex.eval(fr, ins.Value))
	case *ssa.MakeSlice:
		n := ex.toIndex(ex.eval(fr, ins.Len), ins.Len.Type())
		c := ex.toIndex(ex.eval(fr, ins.Cap), ins.Cap.Type())
		fr.locals[ins] = ex.makeSlice(ins.Type().Underlying().(*types.Slice).Elem(), n, c)
	case *ssa.Range:
		x := ex.eval(fr, ins.X)
		switch x := x.(type) {
		case StrV:
			fr.locals[ins] = &IterV{Str: x}
		case MapV:
			fr.locals[ins] = &IterV{Map: x.M}
		default:
			panic(unsupported{"range over " + fmt.Sprintf("%T", x)})
		}
	case *ssa.Next:
		it := ex.eval(fr, ins.Iter).(*IterV)
		fr.locals[ins] = ex.iterNext(it, ins)
	case *ssa.Slice:
		fr.locals[ins] = ex.sliceOp(fr, ins)
	case *ssa.SliceToArrayPointer:
		s := ex.eval(fr, ins.X).(SliceV)
		at := ins.Type().(*types.Pointer).Elem().Underlying().(*types.Array)
		ex.require(tf.Ule(tf.Const(64, uint64(at.Len())), s.Len), "slice", ex.posStr(ex.curPos), "slice to array pointer: length too small")
		if at.Len() == 0 {
			fr.locals[ins] = PtrV{N: ex.newNode(at)}
			break
		}
		// alias window: only supported as a read-mostly view (copy-out semantics)
		fr.locals[ins] = ex.windowPtr(s, at)
	case *ssa.Store:
		p := ex.eval(fr, ins.Addr).(PtrV)
		if p.N == nil {
			ex.fail("nil", ex.posStr(ex.curPos), "nil pointer dereference (store)")
		}
		ex.store(p, ex.eval(fr, ins.Val))
	case *ssa.TypeAssert:
		fr.locals[ins] = ex.typeAssert(ins, ex.eval(fr, ins.X))
	case *ssa.MakeChan:
		n := ex.concretize(ex.toIndex(ex.eval(fr, ins.Size), ins.Size.Type()), "channel capacity")
		fr.locals[ins] = ChanV{C: &ChanObj{capacity: int(n)}}
	case *ssa.Send:
		// sequential model: a send on a full (or unbuffered) channel would block forever
		c := ex.eval(fr, ins.Chan).(ChanV)
		if c.C != nil && c.C.closed {
			ex.fail("panic", ex.posStr(ins.Pos()), "send on closed channel")
		}
		for c.C == nil || len(c.C.queue) >= c.C.capacity {
			ex.blocked("channel send", ins.Pos())
		}
		c.C.queue = append(c.C.queue, ex.eval(fr, ins.X))
	case *ssa.Select:
		// only non-blocking selects (with default) have a sequential meaning; states are taken in order
		// the first ready state in source order is taken (one of the choices the runtime may make); a blocking
		// select with no ready state lets queued goroutines run (sched.go) and is a deadlock when there are none
		idx := -1
		var recv Value
		recvOK := false
		for {
			for i, st := range ins.States {
				c, _ := ex.eval(fr, st.Chan).(ChanV)
				if c.C == nil {
					continue
				}
				if st.Dir == types.SendOnly && !c.C.closed && len(c.C.queue) < c.C.capacity {
					c.C.queue = append(c.C.queue, ex.eval(fr, st.Send))
					idx = i
					break
				}
				if st.Dir == types.RecvOnly && len(c.C.queue) > 0 {
					recv, recvOK = c.C.queue[0], true
					c.C.queue = c.C.queue[1:]
					idx = i
					break
				}
				if st.Dir == types.RecvOnly && c.C.closed {
					recv, recvOK = ex.zero(st.Chan.Type().Underlying().(*types.Chan).Elem()), false
					idx = i
					break
				}
			}
			if idx >= 0 || !ins.Blocking {
				break
			}
			ex.blocked("select", ins.Pos())
		}
		tv := TupleV{IntV{tf.Const(64, uint64(int64(idx)))}, BoolV{tf.Bool(recvOK)}}
		for i, st := range ins.States {
			if st.Dir == types.RecvOnly {
				if i == idx {
					tv = append(tv, recv)
				} else {
					tv = append(tv, ex.zero(st.Chan.Type().Underlying().(*types.Chan).Elem()))
				}
			}
		}
		fr.locals[ins] = tv
	default:
		panic(unsupported{fmt.Sprintf("instruction %T", ins)})
	}
}

// toIndex converts an integer value to a 64-bit term (sign- or zero-extended by its Go type).
func (ex *Exec) toIndex(v Value, t types.Type) *Term {
	iv := v.(IntV).T
	if iv.w == 64 {
		return iv
	}
	_, signed, _ := intWidth(t)
	if signed {
		return ex.tf.SExt(iv, 64)
	}
	return ex.tf.ZExt(iv, 64)
}

// selectVal selects element idx (in range) of a list of values.
func (ex *Exec) selectVal(es []Value, idx *Term) Value {
	if idx.IsConst() {
		return es[idx.val]
	}
	tf := ex.tf
	switch es[0].(type) {
	case IntV:
		r := es[len(es)-1].(IntV).T
		for k := len(es) - 2; k >= 0; k-- {
			r = tf.Ite(tf.Eq(idx, tf.Const(64, uint64(k))), es[k].(IntV).T, r)
		}
		return IntV{r}
	case BoolV:
		r := es[len(es)-1].(BoolV).T
		for k := len(es) - 2; k >= 0; k-- {
			r = tf.Ite(tf.Eq(idx, tf.Const(64, uint64(k))), es[k].(BoolV).T, r)
		}
		return BoolV{r}
	}
	k := ex.concretize(idx, "array index")
	return es[k]
}

func (ex *Exec) indexAddr(x Value, idx *Term) Value {
	tf := ex.tf
	switch x := x.(type) {
	case SliceV:
		ex.require(tf.Ult(idx, x.Len), "index", ex.posStr(ex.curPos), "slice index out of range")
		switch a := x.Arr.(type) {
		case *BytesNode:
			return PtrV{N: a, Elem: true, Idx: tf.Add(x.Off, idx)}
		case *ArrayNode:
			k := ex.concretize(tf.Add(x.Off, idx), "slice index")
			return PtrV{N: a.E[k]}
		}
		panic(pathEnd{"index into nil slice (infeasible after bounds check)"})
	case PtrV:
		if x.N == nil {
			ex.fail("nil", ex.posStr(ex.curPos), "nil pointer dereference (array index)")
		}
		switch a := x.N.(type) {
		case *BytesNode:
			n := a.n
			if x.Win > 0 {
				n = tf.Const(64, uint64(x.Win))
			}
			ex.require(tf.Ult(idx, n), "index", ex.posStr(ex.curPos), "array index out of range")
			base := tf.Const(64, 0)
			if x.Elem {
				base = x.Idx
			}
			return PtrV{N: a, Elem: true, Idx: tf.Add(base, idx)}
		case *ArrayNode:
			ex.require(tf.Ult(idx, tf.Const(64, uint64(len(a.E)))), "index", ex.posStr(ex.curPos), "array index out of range")
			k := ex.concretize(idx, "array index")
			return PtrV{N: a.E[k]}
		}
	}
	panic(unsupported{fmt.Sprintf("IndexAddr on %T", x)})
}

// windowPtr gives a *[N]T view onto the first N elements of a slice.
func (ex *Exec) windowPtr(s SliceV, at *types.Array) Value {
	switch a := s.Arr.(type) {
	case *BytesNode:
		return PtrV{N: a, Elem: true, Idx: s.Off, Win: int(at.Len())}
	case *ArrayNode:
		off := ex.concretize(s.Off, "slice offset")
		if off == 0 && int64(len(a.E)) == at.Len() {
			return PtrV{N: a}
		}
		return PtrV{N: &ArrayNode{E: a.E[off : off+uint64(at.Len())], ElemT: a.ElemT}}
	}
	panic(unsupported{"slice to array pointer"})
}

func (ex *Exec) makeSlice(elem types.Type, n, c *Term) Value {
	tf := ex.tf
	ex.require(tf.BAnd(tf.Sle(tf.Const(64, 0), n), tf.Sle(n, c)), "alloc", ex.posStr(ex.curPos), "makeslice: len out of range")
	sz := ex.eng.sizes.Sizeof(elem)
	if sz < 1 {
		sz = 1
	}
	limit := uint64(1<<30) / uint64(sz)
	ex.require(tf.Ule(c, tf.Const(64, limit)), "alloc", ex.posStr(ex.curPos), "allocation larger than 1 GiB controlled by input")
	if isByteType(elem) {
		b := ex.newBytes(c, zeroBase)
		return SliceV{Arr: b, Off: tf.Const(64, 0), Len: n, Cap: c}
	}
	cn := ex.concretize(c, "slice capacity")
	a := &ArrayNode{E: make([]Node, cn), ElemT: elem}
	for i := range a.E {
		a.E[i] = ex.newNode(elem)
	}
	return SliceV{Arr: a, Off: tf.Const(64, 0), Len: n, Cap: tf.Const(64, cn)}
}

func (ex *Exec) sliceOp(fr *frame, ins *ssa.Slice) Value {
	tf := ex.tf
	x := ex.eval(fr, ins.X)
	var lo, hi, max *Term
	if ins.Low != nil {
		lo = ex.toIndex(ex.eval(fr, ins.Low), ins.Low.Type())
	} else {
		lo = tf.Const(64, 0)
	}
	if ins.High != nil {
		hi = ex.toIndex(ex.eval(fr, ins.High), ins.High.Type())
	}
	if ins.Max != nil {
		max = ex.toIndex(ex.eval(fr, ins.Max), ins.Max.Type())
	}
	where := ex.posStr(ex.curPos)
	switch x := x.(type) {
	case StrV:
		n := ex.strLen(x)
		if hi == nil {
			hi = n
		}
		ex.require(tf.BAnd(tf.Ule(hi, n), tf.Ule(lo, hi)), "slice", where, "string slice bounds out of range")
		return ex.strSlice(x, lo, hi)
	case SliceV:
		if hi == nil {
			hi = x.Len
		}
		capT := x.Cap
		if max != nil {
			ex.require(tf.Ule(max, x.Cap), "slice", where, "slice bounds out of range (max > cap)")
			capT = max
		}
		ex.require(tf.BAnd(tf.Ule(hi, capT), tf.Ule(lo, hi)), "slice", where, "slice bounds out of range")
		if x.Arr == nil {
			return x
		}
		return SliceV{Arr: x.Arr, Off: tf.Add(x.Off, lo), Len: tf.Sub(hi, lo), Cap: tf.Sub(capT, lo)}
	case PtrV:
		if x.N == nil {
			ex.fail("nil", where, "slice of nil array pointer")
		}
		var n *Term
		var base = tf.Const(64, 0)
		switch a := x.N.(type) {
		case *BytesNode:
			n = a.n
			if x.Elem { // window pointer
				base = x.Idx
				at := ins.X.Type().(*types.Pointer).Elem().Underlying().(*types.Array)
				n = tf.Const(64, uint64(at.Len()))
			}
		case *ArrayNode:
			n = tf.Const(64, uint64(len(a.E)))
		default:
			panic(unsupported{fmt.Sprintf("slice of pointer to %T", x.N)})
		}
		if hi == nil {
			hi = n
		}
		capT := n
		if max != nil {
			ex.require(tf.Ule(max, n), "slice", where, "slice bounds out of range (max > cap)")
			capT = max
		}
		ex.require(tf.BAnd(tf.Ule(hi, capT), tf.Ule(lo, hi)), "slice", where, "slice bounds out of range")
		return SliceV{Arr: x.N, Off: tf.Add(base, lo), Len: tf.Sub(hi, lo), Cap: tf.Sub(capT, lo)}
	}
	panic(unsupported{fmt.Sprintf("Slice on %T", x)})
}

func (ex *Exec) typeAssert(ins *ssa.TypeAssert, x Value) Value {
	iv := x.(IfaceV)
	ok := false
	if iv.T != nil {
		if it, isIface := ins.AssertedType.Underlying().(*types.Interface); isIface {
			ok = ex.implements(iv.T, it)
		} else {
			ok = types.Identical(iv.T, ins.AssertedType)
		}
	}
	var res Value
	if ok {
		if _, isIface := ins.AssertedType.Underlying().(*types.Interface); isIface {
			res = iv
		} else {
			res = iv.V
		}
	} else {
		res = ex.zero(ins.AssertedType)
	}
	if ins.CommaOk {
		return TupleV{res, BoolV{ex.tf.Bool(ok)}}
	}
	if !ok {
		ex.fail("typeassert", ex.posStr(ex.curPos), "failed type assertion to "+ins.AssertedType.String())
	}
	return res
}

func (ex *Exec) implements(t types.Type, it *types.Interface) bool {
	return types.Implements(t, it)
}

// ---------- calls ----------

func (ex *Exec) prepareCall(fr *frame, cc *ssa.CallCommon) (FuncV, []Value) {
	var args []Value
	if cc.IsInvoke() {
		recv := ex.eval(fr, cc.Value).(IfaceV)
		if recv.T == nil {
			ex.fail("nil", ex.posStr(ex.curPos), "method call on nil interface ("+cc.Method.Name()+")")
		}
		fv := ex.methodOf(recv, cc.Method)
		args = append(args, recv.V)
		for _, a := range cc.Args {
			args = append(args, ex.eval(fr, a))
		}
		return fv, args
	}
	fv := ex.eval(fr, cc.Value).(FuncV)
	if b, ok := cc.Value.(*ssa.Builtin); ok {
		var ats []types.Type
		for _, a := range cc.Args {
			ats = append(ats, a.Type())
		}
		bb := b
		fv = FuncV{Nat: func(ex *Exec, args []Value) Value { return ex.builtin(bb, args, ats) }}
	}
	for _, a := range cc.Args {
		args = append(args, ex.eval(fr, a))
	}
	return fv, args
}

func (ex *Exec) methodOf(recv IfaceV, m *types.Func) FuncV {
	ms := ex.prog.MethodSets.MethodSet(recv.T)
	sel := ms.Lookup(m.Pkg(), m.Name())
	if sel == nil {
		panic(fmt.Sprintf("no method %s on %s", m.Name(), recv.T))
	}
	fn := ex.prog.MethodValue(sel)
	if fn == nil {
		panic(unsupported{"abstract method " + m.Name() + " on " + recv.T.String()})
	}
	return FuncV{Fn: fn}
}

func (ex *Exec) callCommon(fr *frame, cc *ssa.CallCommon, pos token.Pos) Value {
	fv, args := ex.prepareCall(fr, cc)
	saved := ex.curPos
	r := ex.callFunc(fv, args, pos)
	ex.curPos = saved
	return r
}

// invoke calls method `name` on an interface value (used by intrinsics).
func (ex *Exec) invoke(recv IfaceV, name string, args ...Value) Value {
	if recv.T == nil {
		ex.fail("nil", ex.posStr(ex.curPos), "method call on nil interface ("+name+")")
	}
	ms := ex.prog.MethodSets.MethodSet(recv.T)
	for i := 0; i < ms.Len(); i++ {
		if ms.At(i).Obj().Name() == name {
			fn := ex.prog.MethodValue(ms.At(i))
			return ex.call(fn, append([]Value{recv.V}, args...), nil)
		}
	}
	panic(unsupported{"invoke: no method " + name + " on " + recv.T.String()})
}

func (ex *Exec) hasMethod(t types.Type, name string) bool {
	if t == nil {
		return false
	}
	ms := ex.prog.MethodSets.MethodSet(t)
	for i := 0; i < ms.Len(); i++ {
		if ms.At(i).Obj().Name() == name {
			return true
		}
	}
	return false
}

// ---------- maps (concrete keys only) ----------

func (ex *Exec) mapGet(m MapV, k Value) (Value, bool) {
	if m.M == nil {
		return nil, false
	}
	for i, kk := range m.M.keys {
		e := ex.valEq(kk, k)
		if !e.IsConst() {
			panic(unsupported{"map with symbolic key"})
		}
		if e.IsTrue() {
			return m.M.vals[i], true
		}
	}
	return nil, false
}

func (ex *Exec) mapSet(m MapV, k, v Value) {
	for i, kk := range m.M.keys {
		e := ex.valEq(kk, k)
		if !e.IsConst() {
			panic(unsupported{"map with symbolic key"})
		}
		if e.IsTrue() {
			m.M.vals[i] = v
			return
		}
	}
	m.M.keys = append(m.M.keys, k)
	m.M.vals = append(m.M.vals, v)
}

func (ex *Exec) iterNext(it *IterV, ins *ssa.Next) Value {
	tf := ex.tf
	if ins.IsString {
		s := it.Str
		n := ex.strLen(s)
		pos := tf.Const(64, uint64(it.Pos))
		if !ex.branch(tf.Ult(pos, n)) {
			return TupleV{BoolV{tf.False}, IntV{tf.Const(64, 0)}, IntV{tf.Const(32, 0)}}
		}
		b := ex.strByte(s, pos)
		if b.IsConst() && b.val >= 0x80 {
			// concrete multi-byte rune: decode natively
			cs, ok := ex.strConcrete(s)
			if !ok {
				panic(unsupported{"range over string with non-ASCII symbolic content"})
			}
			for i, r := range cs[it.Pos:] {
				_ = i
				w := len(string(r))
				if r == 0xFFFD {
					w = 1
				}
				it.Pos += w
				return TupleV{BoolV{tf.True}, IntV{pos}, IntV{tf.Const(32, uint64(r))}}
			}
		}
		if !b.IsConst() {
			ascii := tf.Ult(b, tf.Const(8, 0x80))
			if !ex.branch(ascii) {
				// a non-ASCII lead byte: the decoded rune and its width are over-approximated - any rune >= 0x80
				// (including the replacement character) of any width 1..4 that still fits into the string
				ex.timeSeq++
				r := tf.Var(fmt.Sprintf("rune#%d.%d", len(ex.decs), ex.timeSeq), 32)
				ex.addPC(tf.Ule(tf.Const(32, 0x80), r))
				ex.addPC(tf.Ule(r, tf.Const(32, 0x10FFFF)))
				w := 1 + ex.choice(4)
				if !ex.feasible(tf.Ule(tf.Const(64, uint64(it.Pos+w)), n)) {
					panic(pathEnd{"rune wider than the rest of the string"})
				}
				ex.addPC(tf.Ule(tf.Const(64, uint64(it.Pos+w)), n))
				it.Pos += w
				ex.intrUsed["range over string: non-ASCII bytes decoded as an arbitrary rune of width 1..4 (over-approximation)"] = true
				return TupleV{BoolV{tf.True}, IntV{pos}, IntV{r}}
			}
		}
		it.Pos++
		return TupleV{BoolV{tf.True}, IntV{pos}, IntV{tf.ZExt(b, 32)}}
	}
	m := it.Map
	if m == nil || it.Pos >= len(m.keys) {
		kt := ins.Type().(*types.Tuple).At(1).Type()
		vt := ins.Type().(*types.Tuple).At(2).Type()
		var kz, vz Value = IntV{tf.Const(64, 0)}, IntV{tf.Const(64, 0)}
		if _, ok := kt.(*types.Basic); !ok || kt.(*types.Basic).Kind() != types.Invalid {
			kz = ex.zero(kt)
		}
		if _, ok := vt.(*types.Basic); !ok || vt.(*types.Basic).Kind() != types.Invalid {
			vz = ex.zero(vt)
		}
		return TupleV{BoolV{tf.False}, kz, vz}
	}
	k, v := m.keys[it.Pos], m.vals[it.Pos]
	it.Pos++
	return TupleV{BoolV{tf.True}, k, v}
}

// ---------- operators ----------

func (ex *Exec) binop(op token.Token, x, y Value, xt types.Type, pos token.Pos) Value {
	tf := ex.tf
	switch a := x.(type) {
	case IntV:
		b := y.(IntV)
		_, signed, _ := intWidth(xt)
		A, B := a.T, b.T
		switch op {
		case token.ADD:
			return IntV{tf.Add(A, B)}
		case token.SUB:
			return IntV{tf.Sub(A, B)}
		case token.MUL:
			return IntV{tf.Mul(A, B)}
		case token.QUO, token.REM:
			ex.require(tf.BNot(tf.Eq(B, tf.Const(B.w, 0))), "div", ex.posStr(ex.curPos), "integer divide by zero")
			if signed {
				if B.IsConst() && B.SVal() > 0 && B.val&(B.val-1) == 0 && ex.rangeOf(A).lo >= 0 {
					// non-negative dividend, power-of-two divisor: shift / mask
					if op == token.QUO {
						return IntV{tf.UDiv(A, B)}
					}
					return IntV{tf.URem(A, B)}
				}
				if op == token.QUO {
					return IntV{tf.SDiv(A, B)}
				}
				return IntV{tf.SRem(A, B)}
			}
			if op == token.QUO {
				return IntV{tf.UDiv(A, B)}
			}
			return IntV{tf.URem(A, B)}
		case token.AND:
			return IntV{tf.And(A, B)}
		case token.OR:
			return IntV{tf.Or(A, B)}
		case token.XOR:
			return IntV{tf.Xor(A, B)}
		case token.AND_NOT:
			return IntV{tf.And(A, tf.Not(B))}
		case token.SHL, token.SHR:
			// shift count: unsigned, any width
			cnt := B
			if cnt.w != A.w {
				if cnt.w > A.w {
					big := tf.Ule(tf.Const(cnt.w, uint64(A.w)), cnt)
					cnt = tf.Ite(big, tf.Const(A.w, uint64(A.w)), tf.Extract(cnt, A.w-1, 0))
				} else {
					cnt = tf.ZExt(cnt, A.w)
				}
			}
			if op == token.SHL {
				return IntV{tf.Shl(A, cnt)}
			}
			if signed {
				return IntV{tf.AShr(A, cnt)}
			}
			return IntV{tf.LShr(A, cnt)}
		}
		if op == token.EQL || op == token.NEQ || op == token.LSS || op == token.LEQ || op == token.GTR || op == token.GEQ {
			A, B = ex.unExtractPair(A, B, signed)
		}
		switch op {
		case token.EQL:
			return BoolV{tf.Eq(A, B)}
		case token.NEQ:
			return BoolV{tf.BNot(tf.Eq(A, B))}
		case token.LSS:
			if signed {
				return BoolV{tf.Slt(A, B)}
			}
			return BoolV{tf.Ult(A, B)}
		case token.LEQ:
			if signed {
				return BoolV{tf.Sle(A, B)}
			}
			return BoolV{tf.Ule(A, B)}
		case token.GTR:
			if signed {
				return BoolV{tf.Slt(B, A)}
			}
			return BoolV{tf.Ult(B, A)}
		case token.GEQ:
			if signed {
				return BoolV{tf.Sle(B, A)}
			}
			return BoolV{tf.Ule(B, A)}
		}
	case BoolV:
		b := y.(BoolV)
		switch op {
		case token.EQL:
			return BoolV{tf.Eq(a.T, b.T)}
		case token.NEQ:
			return BoolV{tf.BNot(tf.Eq(a.T, b.T))}
		case token.AND, token.LAND:
			return BoolV{tf.BAnd(a.T, b.T)}
		case token.OR, token.LOR:
			return BoolV{tf.BOr(a.T, b.T)}
		}
	case StrV:
		b := y.(StrV)
		switch op {
		case token.ADD:
			return ex.strConcat(a, b)
		case token.EQL:
			return BoolV{ex.strEq(a, b)}
		case token.NEQ:
			return BoolV{tf.BNot(ex.strEq(a, b))}
		case token.LSS, token.LEQ, token.GTR, token.GEQ:
			as, ok1 := ex.strConcrete(a)
			bs, ok2 := ex.strConcrete(b)
			if ok1 && ok2 {
				switch op {
				case token.LSS:
					return BoolV{tf.Bool(as < bs)}
				case token.LEQ:
					return BoolV{tf.Bool(as <= bs)}
				case token.GTR:
					return BoolV{tf.Bool(as > bs)}
				case token.GEQ:
					return BoolV{tf.Bool(as >= bs)}
				}
			}
			c := ex.bytesCompare(a, b) // -1,0,1 as 64-bit
			z := tf.Const(64, 0)
			switch op {
			case token.LSS:
				return BoolV{tf.Slt(c, z)}
			case token.LEQ:
				return BoolV{tf.Sle(c, z)}
			case token.GTR:
				return BoolV{tf.Slt(z, c)}
			case token.GEQ:
				return BoolV{tf.Sle(z, c)}
			}
		}
	case FloatV:
		b := y.(FloatV)
		switch op {
		case token.ADD:
			return FloatV{a.F + b.F}
		case token.SUB:
			return FloatV{a.F - b.F}
		case token.MUL:
			return FloatV{a.F * b.F}
		case token.QUO:
			return FloatV{a.F / b.F}
		case token.LSS:
			return BoolV{tf.Bool(a.F < b.F)}
		case token.LEQ:
			return BoolV{tf.Bool(a.F <= b.F)}
		case token.GTR:
			return BoolV{tf.Bool(a.F > b.F)}
		case token.GEQ:
			return BoolV{tf.Bool(a.F >= b.F)}
		case token.EQL:
			return BoolV{tf.Bool(a.F == b.F)}
		case token.NEQ:
			return BoolV{tf.Bool(a.F != b.F)}
		}
	default:
		switch op {
		case token.EQL:
			return BoolV{ex.valEq(x, y)}
		case token.NEQ:
			return BoolV{tf.BNot(ex.valEq(x, y))}
		}
	}
	panic(unsupported{fmt.Sprintf("binop %s on %T", op, x)})
}

// bytesCompare returns lexicographic comparison (-1,0,1 as 64-bit term) of two strings of boundable length.
func (ex *Exec) bytesCompare(a, b StrV) *Term {
	tf := ex.tf
	la, lb := ex.strLen(a), ex.strLen(b)
	na, ok1 := ex.upperBound(la)
	nb, ok2 := ex.upperBound(lb)
	if !ok1 || !ok2 {
		panic(unsupported{"compare of strings without length bound"})
	}
	n := na
	if nb < n {
		n = nb
	}
	one, zero, neg := tf.Const(64, 1), tf.Const(64, 0), tf.Const(64, ^uint64(0))
	// result when all compared bytes equal: by length
	res := tf.Ite(tf.Ult(la, lb), neg, tf.Ite(tf.Ult(lb, la), one, zero))
	for k := int64(n) - 1; k >= 0; k-- {
		kt := tf.Const(64, uint64(k))
		x, y := ex.strByte(a, kt), ex.strByte(b, kt)
		inb := tf.BAnd(tf.Ult(kt, la), tf.Ult(kt, lb))
		step := tf.Ite(tf.Ult(x, y), neg, tf.Ite(tf.Ult(y, x), one, res))
		res = tf.Ite(inb, step, res)
	}
	return res
}

func (ex *Exec) convert(v Value, from, to types.Type) Value {
	tf := ex.tf
	if tp, ok := to.(*types.TypeParam); ok {
		panic(unsupported{"conversion to type parameter " + tp.String()})
	}
	switch x := v.(type) {
	case IntV:
		if w, _, ok := intWidth(to); ok {
			_, fs, _ := intWidth(from)
			if w <= x.T.w {
				return IntV{tf.Extract(x.T, w-1, 0)}
			}
			if in := ex.unExtract(x.T, w, fs); in != nil {
				return IntV{in}
			}
			if fs {
				return IntV{tf.SExt(x.T, w)}
			}
			return IntV{tf.ZExt(x.T, w)}
		}
		if b, ok := to.Underlying().(*types.Basic); ok {
			if b.Info()&types.IsString != 0 {
				if !x.T.IsConst() {
					panic(unsupported{"string(rune) of symbolic value"})
				}
				return concStr(string(rune(x.T.SVal())))
			}
			if b.Info()&types.IsFloat != 0 {
				if !x.T.IsConst() {
					panic(unsupported{"int to float of symbolic value"})
				}
				_, fs, _ := intWidth(from)
				if fs {
					return FloatV{float64(x.T.SVal())}
				}
				return FloatV{float64(x.T.val)}
			}
			if b.Kind() == types.UnsafePointer {
				panic(unsupported{"conversion to unsafe.Pointer"})
			}
		}
	case FloatV:
		if w, _, ok := intWidth(to); ok {
			return IntV{tf.Const(w, uint64(int64(x.F)))}
		}
		return x
	case StrV:
		if _, ok := to.Underlying().(*types.Slice); ok {
			n := ex.strLen(x)
			b := ex.newBytes(n, zeroBase)
			m, o := ex.strLayer(x)
			ex.bytesCopyIn(b, tf.Const(64, 0), n, m, o)
			return SliceV{Arr: b, Off: tf.Const(64, 0), Len: n, Cap: n}
		}
		return x
	case SliceV:
		if b, ok := to.Underlying().(*types.Basic); ok && b.Info()&types.IsString != 0 {
			if x.Arr == nil {
				return concStr("")
			}
			bn, ok := x.Arr.(*BytesNode)
			if !ok {
				panic(unsupported{"string([]rune)"})
			}
			return ex.normStr(StrV{Mem: bn.freeze(), Off: x.Off, N: x.Len})
		}
		return x
	case PtrV:
		return x
	}
	panic(unsupported{fmt.Sprintf("convert %T from %s to %s", v, from, to)})
}

// ---------- builtins ----------

func (ex *Exec) builtin(b *ssa.Builtin, args []Value, argTypes []types.Type) Value {
	tf := ex.tf
	switch b.Name() {
	case "len":
		switch x := args[0].(type) {
		case ChanV:
			if x.C == nil {
				return IntV{tf.Const(64, 0)}
			}
			return IntV{tf.Const(64, uint64(len(x.C.queue)))}
		case StrV:
			return IntV{ex.strLen(x)}
		case SliceV:
			return IntV{x.Len}
		case ArrayV:
			return IntV{tf.Const(64, uint64(len(x.E)))}
		case BytesV:
			return IntV{tf.Const(64, uint64(x.N))}
		case MapV:
			if x.M == nil {
				return IntV{tf.Const(64, 0)}
			}
			return IntV{tf.Const(64, uint64(len(x.M.keys)))}
		case PtrV:
			switch a := x.N.(type) {
			case *BytesNode:
				return IntV{a.n}
			case *ArrayNode:
				return IntV{tf.Const(64, uint64(len(a.E)))}
			}
		}
	case "cap":
		switch x := args[0].(type) {
		case ChanV:
			if x.C == nil {
				return IntV{tf.Const(64, 0)}
			}
			return IntV{tf.Const(64, uint64(x.C.capacity))}
		case SliceV:
			return IntV{x.Cap}
		case ArrayV:
			return IntV{tf.Const(64, uint64(len(x.E)))}
		case BytesV:
			return IntV{tf.Const(64, uint64(x.N))}
		}
	case "copy":
		return ex.copyBuiltin(args[0].(SliceV), args[1])
	case "append":
		return ex.appendBuiltin(args[0].(SliceV), args[1], argTypes)
	case "min", "max":
		signed := true
		if argTypes != nil {
			_, signed, _ = intWidth(argTypes[0])
		}
		r := args[0].(IntV).T
		for _, a := range args[1:] {
			y := a.(IntV).T
			var c *Term
			if b.Name() == "min" {
				if signed {
					c = tf.Slt(y, r)
				} else {
					c = tf.Ult(y, r)
				}
			} else {
				if signed {
					c = tf.Slt(r, y)
				} else {
					c = tf.Ult(r, y)
				}
			}
			// fork instead of ite: keeps per-path terms small
			if ex.eng.forkMinMax && !ex.scratch {
				if ex.branch(c) {
					r = y
				}
			} else {
				r = tf.Ite(c, y, r)
			}
		}
		return IntV{r}
	case "print", "println":
		return nil
	case "clear":
		switch x := args[0].(type) {
		case SliceV:
			switch a := x.Arr.(type) {
			case *BytesNode:
				ex.bytesFill(a, tf.True, x.Off, tf.Add(x.Off, x.Len), tf.Const(8, 0))
			case *ArrayNode:
				n := ex.concretize(x.Len, "clear length")
				off := ex.concretize(x.Off, "clear offset")
				for i := uint64(0); i < n; i++ {
					ex.storeNode(a.E[off+i], ex.zero(a.ElemT))
				}
			}
		case MapV:
			if x.M != nil {
				x.M.keys, x.M.vals = nil, nil
			}
		}
		return nil
	case "recover":
		return IfaceV{}
	case "close":
		c, _ := args[0].(ChanV)
		if c.C == nil {
			ex.fail("panic", ex.posStr(ex.curPos), "close of nil channel")
		}
		if c.C.closed {
			ex.fail("panic", ex.posStr(ex.curPos), "close of closed channel")
		}
		c.C.closed = true
		return nil
	case "delete":
		m := args[0].(MapV)
		if m.M != nil {
			for i, kk := range m.M.keys {
				if ex.valEq(kk, args[1]).IsTrue() {
					m.M.keys = append(m.M.keys[:i], m.M.keys[i+1:]...)
					m.M.vals = append(m.M.vals[:i], m.M.vals[i+1:]...)
					break
				}
			}
		}
		return nil
	case "ssa:wrapnilchk":
		p := args[0].(PtrV)
		if p.N == nil {
			ex.fail("nil", ex.posStr(ex.curPos), "value method called using nil pointer")
		}
		return p
	}
	panic(unsupported{"builtin " + b.Name()})
}

func (ex *Exec) copyBuiltin(dst SliceV, src Value) Value {
	tf := ex.tf
	var n *Term
	var srcLen *Term
	switch s := src.(type) {
	case SliceV:
		srcLen = s.Len
	case StrV:
		srcLen = ex.strLen(s)
	}
	// n = min(len(dst), len(src)) - fork to keep terms small
	if ex.branch(tf.Ule(dst.Len, srcLen)) {
		n = dst.Len
	} else {
		n = srcLen
	}
	if n.IsConst() && n.val == 0 {
		return IntV{n}
	}
	switch d := dst.Arr.(type) {
	case *BytesNode:
		switch s := src.(type) {
		case SliceV:
			sb := s.Arr.(*BytesNode)
			ex.bytesCopyIn(d, dst.Off, n, sb.freeze(), s.Off)
		case StrV:
			m, o := ex.strLayer(s)
			ex.bytesCopyIn(d, dst.Off, n, m, o)
		}
	case *ArrayNode:
		s := src.(SliceV)
		sa := s.Arr.(*ArrayNode)
		cn := ex.concretize(n, "copy length")
		do := ex.concretize(dst.Off, "copy dst offset")
		so := ex.concretize(s.Off, "copy src offset")
		tmp := make([]Value, cn)
		for i := uint64(0); i < cn; i++ {
			tmp[i] = ex.loadNode(sa.E[so+i])
		}
		for i := uint64(0); i < cn; i++ {
			ex.storeNode(d.E[do+i], tmp[i])
		}
	default:
		panic(pathEnd{"copy into nil slice with n>0"})
	}
	return IntV{n}
}

func (ex *Exec) appendBuiltin(s SliceV, more Value, argTypes []types.Type) Value {
	tf := ex.tf
	var addLen *Term
	switch m := more.(type) {
	case SliceV:
		addLen = m.Len
	case StrV:
		addLen = ex.strLen(m)
	}
	if addLen.IsConst() && addLen.val == 0 {
		return s
	}
	newLen := tf.Add(s.Len, addLen)
	isBytes := false
	if s.Arr != nil {
		_, isBytes = s.Arr.(*BytesNode)
	} else if argTypes != nil {
		isBytes = isByteType(argTypes[0].Underlying().(*types.Slice).Elem())
	} else if ms, ok := more.(SliceV); ok {
		_, isBytes = ms.Arr.(*BytesNode)
	} else {
		isBytes = true
	}
	if isBytes {
		var srcMem *layer
		var srcOff *Term
		switch m := more.(type) {
		case SliceV:
			srcMem, srcOff = m.Arr.(*BytesNode).freeze(), m.Off
		case StrV:
			srcMem, srcOff = ex.strLayer(m)
		}
		fits := tf.Ule(newLen, s.Cap)
		if s.Arr != nil && fits.IsTrue() {
			d := s.Arr.(*BytesNode)
			ex.bytesCopyIn(d, tf.Add(s.Off, s.Len), addLen, srcMem, srcOff)
			return SliceV{Arr: d, Off: s.Off, Len: newLen, Cap: s.Cap}
		}
		// reallocate (for symbolic capacities we always reallocate: callers never rely on aliasing after append)
		var newCap *Term
		if newLen.IsConst() && s.Cap.IsConst() {
			c := 2 * s.Cap.val
			if c < newLen.val {
				c = newLen.val
			}
			if c < 8 {
				c = 8
			}
			newCap = tf.Const(64, c)
		} else {
			newCap = newLen
		}
		d := ex.newBytes(newCap, zeroBase)
		if s.Arr != nil {
			ex.bytesCopyIn(d, tf.Const(64, 0), s.Len, s.Arr.(*BytesNode).freeze(), s.Off)
		}
		ex.bytesCopyIn(d, s.Len, addLen, srcMem, srcOff)
		return SliceV{Arr: d, Off: tf.Const(64, 0), Len: newLen, Cap: newCap}
	}
	// generic element slices: concrete lengths
	ms := more.(SliceV)
	n0 := ex.concretize(s.Len, "append length")
	n1 := ex.concretize(ms.Len, "append length")
	var elemT types.Type
	if s.Arr != nil {
		elemT = s.Arr.(*ArrayNode).ElemT
	} else {
		elemT = ms.Arr.(*ArrayNode).ElemT
	}
	c0 := uint64(0)
	if s.Arr != nil {
		c0 = ex.concretize(s.Cap, "append cap")
	}
	srcA := ms.Arr.(*ArrayNode)
	so := ex.concretize(ms.Off, "append src offset")
	vals := make([]Value, n1)
	for i := range vals {
		vals[i] = ex.loadNode(srcA.E[so+uint64(i)])
	}
	if s.Arr != nil && n0+n1 <= c0 {
		d := s.Arr.(*ArrayNode)
		do := ex.concretize(s.Off, "append offset")
		for i := range vals {
			ex.storeNode(d.E[do+n0+uint64(i)], vals[i])
		}
		return SliceV{Arr: d, Off: s.Off, Len: tf.Const(64, n0+n1), Cap: s.Cap}
	}
	nc := 2 * c0
	if nc < n0+n1 {
		nc = n0 + n1
	}
	if nc < 4 {
		nc = 4
	}
	d := &ArrayNode{E: make([]Node, nc), ElemT: elemT}
	for i := range d.E {
		d.E[i] = ex.newNode(elemT)
	}
	if s.Arr != nil {
		sa := s.Arr.(*ArrayNode)
		do := ex.concretize(s.Off, "append offset")
		for i := uint64(0); i < n0; i++ {
			ex.storeNode(d.E[i], ex.loadNode(sa.E[do+i]))
		}
	}
	for i := range vals {
		ex.storeNode(d.E[n0+uint64(i)], vals[i])
	}
	return SliceV{Arr: d, Off: tf.Const(64, 0), Len: tf.Const(64, n0+n1), Cap: tf.Const(64, nc)}
}

// ---------- misc helpers ----------

func sortedStrings(m map[string]bool) []string {
	var s []string
	for k := range m {
		s = append(s, k)
	}
	sort.Strings(s)
	return s
}

func (ex *Exec) copyChoices() map[string]uint64 {
	m := map[string]uint64{}
	for k, v := range ex.choiceVals {
		m[k] = v
	}
	return m
}

func (ex *Exec) harnessDir() string {
	return filepath.Dir(ex.prog.Fset.Position(ex.harnessFn.Pos()).Filename)
}

// learn records a fact implied by the path condition.
func (ex *Exec) learn(c *Term) {
	ex.setFact(c.id)
	ex.noteBound(c)
}

// unExtract: t = extract[k-1:0](inner) with inner of width w whose value provably fits k bits
// (signed or unsigned as requested) -> inner; nil otherwise.
func (ex *Exec) unExtract(t *Term, w int, signed bool) *Term {
	if t.op != OpExtract || t.extra&0xff != 0 || t.args[0].w != w {
		return nil
	}
	in := t.args[0]
	r := ex.rangeOf(in)
	if signed {
		if r.within(fullRange(t.w)) {
			return in
		}
		return nil
	}
	if r.lo >= 0 && (t.w >= 63 || r.hi <= int64(mask(t.w))) {
		return in
	}
	return nil
}

// unExtractPair lifts a comparison between two truncated values to the wide values when both fit.
func (ex *Exec) unExtractPair(a, b *Term, signed bool) (*Term, *Term) {
	if a.w >= 64 {
		return a, b
	}
	lift := func(t *Term) *Term {
		if t.IsConst() {
			if signed {
				return ex.tf.Const(64, uint64(t.SVal()))
			}
			return ex.tf.Const(64, t.val)
		}
		return ex.unExtract(t, 64, signed)
	}
	if a.IsConst() && b.IsConst() {
		return a, b
	}
	la, lb := lift(a), lift(b)
	if la != nil && lb != nil {
		return la, lb
	}
	return a, b
}

// slice returns the conjuncts of the path condition that share symbols (transitively) with c.
// The rest is satisfiable on its own (the path condition is feasible) and cannot influence c.
func (ex *Exec) slice(c *Term) []*Term {
	if ex.eng.noSlice {
		return ex.pc
	}
	syms := map[int]struct{}{}
	for k := range c.Vars() {
		syms[k] = struct{}{}
	}
	in := make([]bool, len(ex.pc))
	for changed := true; changed; {
		changed = false
		for i, t := range ex.pc {
			if in[i] {
				continue
			}
			hit := false
			for k := range t.Vars() {
				if _, ok := syms[k]; ok {
					hit = true
					break
				}
			}
			if hit {
				in[i] = true
				changed = true
				for k := range t.Vars() {
					syms[k] = struct{}{}
				}
			}
		}
	}
	out := make([]*Term, 0, len(ex.pc))
	for i, t := range ex.pc {
		if in[i] {
			out = append(out, t)
		}
	}
	return out
}

package main

// Cooperative scheduling of goroutines (only for harnesses that ask for it with verifrt.Goroutines()).
//
// The executor is sequential. A `go` statement queues the call; queued goroutines run, oldest first and
// each to completion, whenever the running code blocks on a channel operation (send on a full channel,
// receive from an empty open channel, select with no ready case), at verifrt.Yield(), and when the
// harness function returns. This is ONE of the schedules the Go runtime may produce ("a goroutine gets
// to run only when everyone before it is blocked or finished"); what is decided under it holds for that
// schedule only, and a failure found under it is a real execution.
//
//   - blocked with an empty queue                = nobody can ever wake the blocked code: DEADLOCK, reported
//     as a violation of kind "deadlock" (in a server: capacity lost for good);
//   - a queued goroutine that blocks itself      = not representable without suspending frames: INCONCLUSIVE.

import (
	"go/token"
)

func (ex *Exec) blocked(what string, pos token.Pos) {
	if !ex.allowGo {
		panic(unsupported{"blocking " + what + " at " + ex.posStr(pos)})
	}
	if ex.inGoroutine > 0 {
		panic(unsupported{"a queued goroutine blocks on a " + what + " at " + ex.posStr(pos) + " (cooperative schedule cannot suspend it)"})
	}
	if len(ex.goQueue) == 0 {
		ex.fail("deadlock", ex.posStr(pos), "blocks forever on a "+what+": no goroutine is left that could wake it")
	}
	ex.runOneGoroutine()
}

func (ex *Exec) runOneGoroutine() {
	g := ex.goQueue[0]
	ex.goQueue = ex.goQueue[1:]
	ex.inGoroutine++
	g()
	ex.inGoroutine--
}

// yield runs every queued goroutine (including the ones they start) to completion.
func (ex *Exec) yield() {
	if ex.inGoroutine > 0 {
		return
	}
	for len(ex.goQueue) > 0 {
		ex.runOneGoroutine()
	}
}

package main

// Concrete shortcut: pure standard-library functions whose arguments are all
// concrete are evaluated by calling the real function natively.

import (
	"fmt"
	"go/types"
	"net"
	"path"
	"path/filepath"
	"reflect"
	"strconv"
	"strings"
	"unicode"
	"unicode/utf8"

	"golang.org/x/tools/go/ssa"
)

var nativeTable = map[string]interface{}{
	"strings.ToUpper":                strings.ToUpper,
	"strings.ToLower":                strings.ToLower,
	"strings.TrimPrefix":             strings.TrimPrefix,
	"strings.TrimSuffix":             strings.TrimSuffix,
	"strings.HasPrefix":              strings.HasPrefix,
	"strings.HasSuffix":              strings.HasSuffix,
	"strings.Split":                  strings.Split,
	"strings.Join":                   strings.Join,
	"strings.Index":                  strings.Index,
	"strings.LastIndex":              strings.LastIndex,
	"strings.Contains":               strings.Contains,
	"strings.EqualFold":              strings.EqualFold,
	"strings.TrimSpace":              strings.TrimSpace,
	"strings.Repeat":                 strings.Repeat,
	"strings.ReplaceAll":             strings.ReplaceAll,
	"strings.TrimRight":              strings.TrimRight,
	"strings.TrimLeft":               strings.TrimLeft,
	"strings.Trim":                   strings.Trim,
	"strings.Count":                  strings.Count,
	"strings.Fields":                 strings.Fields,
	"path/filepath.Clean":            filepath.Clean,
	"path/filepath.Join":             filepath.Join,
	"path/filepath.Split":            filepath.Split,
	"path/filepath.Ext":              filepath.Ext,
	"path/filepath.Base":             filepath.Base,
	"path/filepath.Dir":              filepath.Dir,
	"path/filepath.Rel":              filepath.Rel,
	"path/filepath.FromSlash":        filepath.FromSlash,
	"path/filepath.ToSlash":          filepath.ToSlash,
	"path/filepath.IsAbs":            filepath.IsAbs,
	"path/filepath.VolumeName":       filepath.VolumeName,
	"path.Clean":                     path.Clean,
	"path.Join":                      path.Join,
	"path.Base":                      path.Base,
	"path.Dir":                       path.Dir,
	"path.Ext":                       path.Ext,
	"strconv.Itoa":                   strconv.Itoa,
	"strconv.Atoi":                   strconv.Atoi,
	"strconv.Quote":                  strconv.Quote,
	"net.ParseIP":                    net.ParseIP,
	"unicode.ToUpper":                unicode.ToUpper,
	"unicode.ToLower":                unicode.ToLower,
	"unicode.IsUpper":                unicode.IsUpper,
	"unicode.IsLower":                unicode.IsLower,
	"unicode.IsLetter":               unicode.IsLetter,
	"unicode.IsDigit":                unicode.IsDigit,
	"unicode.IsSpace":                unicode.IsSpace,
	"unicode/utf8.RuneLen":           utf8.RuneLen,
	"unicode/utf8.ValidString":       utf8.ValidString,
	"unicode/utf8.RuneCountInString": utf8.RuneCountInString,
	"fmt.Sprintf":                    fmt.Sprintf,
}

type natResult struct{ v Value }

var errorType = reflect.TypeOf((*error)(nil)).Elem()

func (ex *Exec) toGo(v Value, t reflect.Type) (reflect.Value, bool) {
	switch t.Kind() {
	case reflect.String:
		s, ok := v.(StrV)
		if !ok {
			return reflect.Value{}, false
		}
		cs, ok := ex.strConcrete(s)
		if !ok {
			return reflect.Value{}, false
		}
		return reflect.ValueOf(cs).Convert(t), true
	case reflect.Bool:
		b, ok := v.(BoolV)
		if !ok || !b.T.IsConst() {
			return reflect.Value{}, false
		}
		return reflect.ValueOf(b.T.IsTrue()), true
	case reflect.Int, reflect.Int8, reflect.Int16, reflect.Int32, reflect.Int64:
		i, ok := v.(IntV)
		if !ok || !i.T.IsConst() {
			return reflect.Value{}, false
		}
		r := reflect.New(t).Elem()
		r.SetInt(i.T.SVal())
		return r, true
	case reflect.Uint, reflect.Uint8, reflect.Uint16, reflect.Uint32, reflect.Uint64:
		i, ok := v.(IntV)
		if !ok || !i.T.IsConst() {
			return reflect.Value{}, false
		}
		r := reflect.New(t).Elem()
		r.SetUint(i.T.val)
		return r, true
	case reflect.Slice:
		s, ok := v.(SliceV)
		if !ok {
			return reflect.Value{}, false
		}
		if s.Arr == nil {
			return reflect.Zero(t), true
		}
		if !s.Len.IsConst() || !s.Off.IsConst() {
			return reflect.Value{}, false
		}
		n := int(s.Len.val)
		r := reflect.MakeSlice(t, n, n)
		for i := 0; i < n; i++ {
			var ev Value
			switch a := s.Arr.(type) {
			case *ArrayNode:
				ev = ex.loadNode(a.E[s.Off.val+uint64(i)])
			case *BytesNode:
				ev = IntV{ex.bytesRead(a, ex.tf.Const(64, s.Off.val+uint64(i)))}
			}
			g, ok := ex.toGo(ev, t.Elem())
			if !ok {
				return reflect.Value{}, false
			}
			r.Index(i).Set(g)
		}
		return r, true
	case reflect.Interface:
		// fmt.Sprintf operands
		iv, ok := v.(IfaceV)
		if !ok {
			return reflect.Value{}, false
		}
		if iv.T == nil {
			return reflect.Zero(t), true
		}
		switch x := iv.V.(type) {
		case StrV:
			cs, ok := ex.strConcrete(x)
			if !ok {
				return reflect.Value{}, false
			}
			return reflect.ValueOf(cs), true
		case IntV:
			if !x.T.IsConst() {
				return reflect.Value{}, false
			}
			_, signed, _ := intWidth(iv.T)
			if signed {
				return reflect.ValueOf(x.T.SVal()), true
			}
			return reflect.ValueOf(x.T.val), true
		case BoolV:
			if !x.T.IsConst() {
				return reflect.Value{}, false
			}
			return reflect.ValueOf(x.T.IsTrue()), true
		}
		return reflect.Value{}, false
	}
	return reflect.Value{}, false
}

func (ex *Exec) fromGo(g reflect.Value, t types.Type) Value {
	tf := ex.tf
	if g.Type() == errorType || (g.Kind() == reflect.Interface && g.Type().Implements(errorType)) {
		if g.IsNil() {
			return IfaceV{}
		}
		return ex.newError("native: " + g.Interface().(error).Error())
	}
	switch g.Kind() {
	case reflect.String:
		return concStr(g.String())
	case reflect.Bool:
		return BoolV{tf.Bool(g.Bool())}
	case reflect.Int, reflect.Int8, reflect.Int16, reflect.Int32, reflect.Int64:
		w, _, _ := intWidth(t)
		return IntV{tf.Const(w, uint64(g.Int()))}
	case reflect.Uint, reflect.Uint8, reflect.Uint16, reflect.Uint32, reflect.Uint64:
		w, _, _ := intWidth(t)
		return IntV{tf.Const(w, g.Uint())}
	case reflect.Slice:
		if g.IsNil() {
			return ex.zero(t)
		}
		st := t.Underlying().(*types.Slice)
		n := g.Len()
		nt := tf.Const(64, uint64(n))
		if isByteType(st.Elem()) {
			b := ex.newBytes(nt, zeroBase)
			for i := 0; i < n; i++ {
				ex.bytesWrite(b, tf.Const(64, uint64(i)), tf.Const(8, g.Index(i).Uint()))
			}
			return SliceV{Arr: b, Off: tf.Const(64, 0), Len: nt, Cap: nt}
		}
		a := &ArrayNode{E: make([]Node, n), ElemT: st.Elem()}
		for i := range a.E {
			a.E[i] = ex.newNode(st.Elem())
			ex.storeNode(a.E[i], ex.fromGo(g.Index(i), st.Elem()))
		}
		return SliceV{Arr: a, Off: tf.Const(64, 0), Len: nt, Cap: nt}
	}
	panic(unsupported{"fromGo " + g.Type().String()})
}

// nativeCall evaluates fn natively if it is in the table and all arguments are concrete.
func nativeCall(ex *Exec, fn *ssa.Function, args []Value) *natResult {
	nf, ok := nativeTable[fn.String()]
	if !ok {
		return nil
	}
	rv := reflect.ValueOf(nf)
	rt := rv.Type()
	if len(args) != rt.NumIn() {
		return nil
	}
	in := make([]reflect.Value, len(args))
	for i, a := range args {
		g, ok := ex.toGo(a, rt.In(i))
		if !ok {
			return nil
		}
		in[i] = g
	}
	var out []reflect.Value
	if rt.IsVariadic() {
		out = rv.CallSlice(in)
	} else {
		out = rv.Call(in)
	}
	res := fn.Signature.Results()
	switch len(out) {
	case 0:
		return &natResult{nil}
	case 1:
		return &natResult{ex.fromGo(out[0], res.At(0).Type())}
	}
	tv := make(TupleV, len(out))
	for i := range out {
		tv[i] = ex.fromGo(out[i], res.At(i).Type())
	}
	return &natResult{tv}
}

// nativeGlobal provides initial values of dependency globals that the executor needs.
func nativeGlobal(ex *Exec, name string, t types.Type) (Value, bool) {
	tf := ex.tf
	mkBytes := func(bs []byte) Value {
		n := tf.Const(64, uint64(len(bs)))
		b := ex.newBytes(n, zeroBase)
		for i, c := range bs {
			ex.bytesWrite(b, tf.Const(64, uint64(i)), tf.Const(8, uint64(c)))
		}
		return SliceV{Arr: b, Off: tf.Const(64, 0), Len: n, Cap: n}
	}
	switch name {
	case "net.v4InV6Prefix":
		return mkBytes([]byte{0, 0, 0, 0, 0, 0, 0, 0, 0, 0, 0xff, 0xff}), true
	case "net.IPv4zero":
		return mkBytes(net.IPv4zero), true
	case "net.IPv6unspecified", "net.IPv6zero":
		return mkBytes(net.IPv6zero), true
	case "crypto/rand.Reader":
		rt := ex.eng.namedType("crypto/rand", "reader")
		return IfaceV{T: types.NewPointer(rt), V: PtrV{N: ex.newNode(rt)}}, true
	case "os.Stdout", "os.Stderr", "os.Stdin":
		ft := ex.eng.namedType("os", "File")
		return PtrV{N: ex.newNode(ft)}, true
	case "os.Args":
		return ex.zero(t), true
	case "net/netip.z0":
		return ex.zero(t), true
	case "net/netip.z4", "net/netip.z6noz":
		// unique.Handle[addrDetail]{value *addrDetail}: two distinct canonical pointers (the only Addr.z values of
		// addresses without a zone; zoned addresses go through unique.Make, which has no model)
		st, ok := t.Underlying().(*types.Struct)
		if !ok || st.NumFields() != 1 {
			return nil, false
		}
		pt, ok := st.Field(0).Type().(*types.Pointer)
		if !ok {
			return nil, false
		}
		n := ex.newNode(pt.Elem())
		if sn, ok := n.(*StructNode); ok && name == "net/netip.z6noz" && len(sn.F) >= 1 {
			ex.storeNode(sn.F[0], BoolV{tf.True})
		}
		return StructV{F: []Value{PtrV{N: n}}}, true
	case "io.Discard":
		dt := ex.eng.namedType("io", "discard")
		return IfaceV{T: dt, V: ex.zero(dt)}, true
	}
	return nil, false
}

package main

// Evaluation of terms under a concrete model (for the witness cache: a model of the path
// condition that also satisfies a branch condition proves the branch feasible without a query).

import "strconv"

type evalCtx struct {
	m    *Model
	memo map[int]uint64
	fail bool
}

func evalTerm(t *Term, c *evalCtx) uint64 {
	if v, ok := c.memo[t.id]; ok {
		return v
	}
	for _, a := range t.args {
		evalTerm(a, c)
	}
	r := evalNode(t, c)
	c.memo[t.id] = r
	return r
}

// evalNode computes the value of t from the memoized values of its arguments.
func evalNode(t *Term, c *evalCtx) uint64 {
	var r uint64
	a := func(i int) uint64 { return c.memo[t.args[i].id] }
	sx := func(v uint64, w int) int64 {
		if w >= 64 {
			return int64(v)
		}
		if v&(uint64(1)<<uint(w-1)) != 0 {
			v |= ^mask(w)
		}
		return int64(v)
	}
	b2u := func(b bool) uint64 {
		if b {
			return 1
		}
		return 0
	}
	switch t.op {
	case OpConst:
		r = t.val
	case OpTrue:
		r = 1
	case OpFalse:
		r = 0
	case OpVar:
		v, ok := c.m.vars[t.name]
		if !ok {
			v = 0 // variable unconstrained by the model's query: any value works, take 0... only if it was not part of that query
			c.fail = true
		}
		r = v
	case OpApply:
		var key string
		for i := range t.args {
			if i > 0 {
				key += ","
			}
			key += strconv.FormatUint(a(i), 10)
		}
		v, ok := c.m.funcs[t.name][key]
		if !ok {
			c.fail = true
		}
		r = v
	case OpAdd:
		for i := range t.args {
			r += a(i)
		}
	case OpMulC:
		r = a(0) * t.val
	case OpMul:
		r = a(0) * a(1)
	case OpUDiv:
		if y := a(1); y == 0 {
			r = mask(t.w)
		} else {
			r = a(0) / y
		}
	case OpURem:
		if y := a(1); y == 0 {
			r = a(0)
		} else {
			r = a(0) % y
		}
	case OpSDiv:
		x, y := sx(a(0), t.w), sx(a(1), t.w)
		switch {
		case y == 0:
			if x >= 0 {
				r = mask(t.w)
			} else {
				r = 1
			}
		case y == -1:
			r = uint64(-x)
		default:
			r = uint64(x / y)
		}
	case OpSRem:
		x, y := sx(a(0), t.w), sx(a(1), t.w)
		switch {
		case y == 0:
			r = uint64(x)
		case y == -1:
			r = 0
		default:
			r = uint64(x % y)
		}
	case OpAnd:
		r = a(0) & a(1)
	case OpOr:
		r = a(0) | a(1)
	case OpXor:
		r = a(0) ^ a(1)
	case OpNot:
		r = ^a(0)
	case OpShl:
		if s := a(1); s >= uint64(t.w) {
			r = 0
		} else {
			r = a(0) << s
		}
	case OpLShr:
		if s := a(1); s >= uint64(t.w) {
			r = 0
		} else {
			r = (a(0) & mask(t.w)) >> s
		}
	case OpAShr:
		s := a(1)
		if s >= uint64(t.w) {
			s = uint64(t.w - 1)
		}
		r = uint64(sx(a(0), t.w) >> s)
	case OpConcat:
		r = a(0)<<uint(t.args[1].w) | a(1)
	case OpExtract:
		r = a(0) >> uint(t.extra&0xff)
	case OpZExt:
		r = a(0) & mask(t.args[0].w)
	case OpSExt:
		r = uint64(sx(a(0), t.args[0].w))
	case OpIte:
		if a(0) != 0 {
			r = a(1)
		} else {
			r = a(2)
		}
	case OpEq:
		if t.args[0].w == 0 {
			r = b2u((a(0) != 0) == (a(1) != 0))
		} else {
			r = b2u(a(0)&mask(t.args[0].w) == a(1)&mask(t.args[0].w))
		}
	case OpUlt:
		r = b2u(a(0)&mask(t.args[0].w) < a(1)&mask(t.args[0].w))
	case OpUle:
		r = b2u(a(0)&mask(t.args[0].w) <= a(1)&mask(t.args[0].w))
	case OpSlt:
		r = b2u(sx(a(0), t.args[0].w) < sx(a(1), t.args[0].w))
	case OpSle:
		r = b2u(sx(a(0), t.args[0].w) <= sx(a(1), t.args[0].w))
	case OpBAnd:
		r = 1
		for i := range t.args {
			if a(i) == 0 {
				r = 0
			}
		}
	case OpBOr:
		r = 0
		for i := range t.args {
			if a(i) != 0 {
				r = 1
			}
		}
	case OpBNot:
		r = b2u(a(0) == 0)
	}
	if t.w > 0 {
		r &= mask(t.w)
	}
	return r
}

// witness is a model known to satisfy the current path condition.
type witness struct {
	m *Model
}

// holdsIn evaluates c under the model; ok=false if the model does not determine it.
func (w *witness) holdsIn(c *Term) (val bool, ok bool) {
	ctx := &evalCtx{m: w.m, memo: map[int]uint64{}}
	v := evalTerm(c, ctx)
	if ctx.fail {
		return false, false
	}
	return v != 0, true
}

package main

// Signed interval analysis of terms under the current path condition. It is
// used to (a) decide comparisons without the solver, (b) replace signed
// division/remainder by powers of two with shifts/masks when the dividend is
// known non-negative, (c) drop sign-extension of truncations that cannot
// overflow. Every rewrite is valid under the path condition it was derived
// from, and every query carries that path condition.

import "math/bits"

type rng struct {
	lo, hi int64
}

func fullRange(w int) rng {
	if w >= 64 {
		return rng{-1 << 63, 1<<63 - 1}
	}
	return rng{-(int64(1) << uint(w-1)), int64(1)<<uint(w-1) - 1}
}

func (r rng) within(o rng) bool { return r.lo >= o.lo && r.hi <= o.hi }

func addOv(a, b int64) (int64, bool) {
	c := a + b
	if (a > 0 && b > 0 && c < 0) || (a < 0 && b < 0 && c >= 0) {
		return 0, true
	}
	return c, false
}

func mulOv(a, b int64) (int64, bool) {
	if a == 0 || b == 0 {
		return 0, false
	}
	neg := (a < 0) != (b < 0)
	ua, ub := uint64(a), uint64(b)
	if a < 0 {
		ua = uint64(-a)
	}
	if b < 0 {
		ub = uint64(-b)
	}
	hi, lo := bits.Mul64(ua, ub)
	if hi != 0 || lo > 1<<63-1 {
		return 0, true
	}
	if neg {
		return -int64(lo), false
	}
	return int64(lo), false
}

// noteBound records bounds implied by an atom of the path condition.
func (ex *Exec) noteBound(c *Term) {
	pos := true
	if c.op == OpBNot {
		pos = false
		c = c.args[0]
	}
	if len(c.args) != 2 || c.args[0].w == 0 {
		return
	}
	a, b := c.args[0], c.args[1]
	set := func(t *Term, lo, hi int64, hasLo, hasHi bool) {
		if t.IsConst() {
			return
		}
		r, ok := ex.bounds[t.id]
		if !ok {
			r = fullRange(t.w)
		}
		if hasLo && lo > r.lo {
			r.lo = lo
		}
		if hasHi && hi < r.hi {
			r.hi = hi
		}
		ex.bounds[t.id] = r
		ex.rngMemo = nil
	}
	if !(a.IsConst() && b.IsConst()) {
		nonneg := func() bool { return ex.rangeOf(a).lo >= 0 && ex.rangeOf(b).lo >= 0 }
		switch {
		case c.op == OpSlt || (c.op == OpUlt && nonneg()):
			if pos { // a < b : a-b <= -1
				ex.noteDiff(a, b, -1, true)
			} else { // a >= b : a-b >= 0
				ex.noteDiff(a, b, 0, false)
			}
		case c.op == OpSle || (c.op == OpUle && nonneg()):
			if pos {
				ex.noteDiff(a, b, 0, true)
			} else {
				ex.noteDiff(a, b, 1, false)
			}
		case c.op == OpEq && pos:
			ex.noteDiff(a, b, 0, true)
			ex.noteDiff(a, b, 0, false)
		}
	}
	switch c.op {
	case OpSlt: // a < b
		if pos {
			if b.IsConst() && b.SVal() > fullRange(b.w).lo {
				set(a, 0, b.SVal()-1, false, true)
			}
			if a.IsConst() && a.SVal() < fullRange(a.w).hi {
				set(b, a.SVal()+1, 0, true, false)
			}
		} else { // a >= b
			if b.IsConst() {
				set(a, b.SVal(), 0, true, false)
			}
			if a.IsConst() {
				set(b, 0, a.SVal(), false, true)
			}
		}
	case OpSle:
		if pos {
			if b.IsConst() {
				set(a, 0, b.SVal(), false, true)
			}
			if a.IsConst() {
				set(b, a.SVal(), 0, true, false)
			}
		} else { // a > b
			if b.IsConst() && b.SVal() < fullRange(b.w).hi {
				set(a, b.SVal()+1, 0, true, false)
			}
			if a.IsConst() && a.SVal() > fullRange(a.w).lo {
				set(b, 0, a.SVal()-1, false, true)
			}
		}
	case OpUlt:
		if pos && b.IsConst() && b.SVal() > 0 { // a <u b, b small: a in [0, b-1]
			set(a, 0, b.SVal()-1, true, true)
		}
		if !pos && a.IsConst() && a.SVal() >= 0 { // b <=u a
			set(b, 0, a.SVal(), true, true)
		}
	case OpUle:
		if pos && b.IsConst() && b.SVal() >= 0 {
			set(a, 0, b.SVal(), true, true)
		}
		if !pos && a.IsConst() && a.SVal() > 0 { // b <u a
			set(b, 0, a.SVal()-1, true, true)
		}
	case OpEq:
		if pos && b.IsConst() {
			set(a, b.SVal(), b.SVal(), true, true)
		}
	}
}

func (ex *Exec) rangeOf(t *Term) rng {
	if t.w == 0 {
		return rng{0, 1}
	}
	if t.IsConst() {
		return rng{t.SVal(), t.SVal()}
	}
	if ex.rngMemo == nil {
		ex.rngMemo = map[int]rng{}
	}
	if r, ok := ex.rngMemo[t.id]; ok {
		return r
	}
	full := fullRange(t.w)
	r := full
	switch t.op {
	case OpZExt:
		in := t.args[0]
		r = rng{0, int64(mask(in.w))}
		if in.w >= 63 {
			r = full
		}
		if ir := ex.rangeOf(in); ir.lo >= 0 {
			r = ir
		}
	case OpSExt:
		r = ex.rangeOf(t.args[0])
	case OpExtract:
		if t.extra&0xff == 0 {
			ir := ex.rangeOf(t.args[0])
			if ir.within(full) {
				r = ir
			}
		}
	case OpAdd:
		lo, hi := int64(0), int64(0)
		ov := false
		for _, a := range t.args {
			ar := ex.rangeOf(a)
			var o1, o2 bool
			lo, o1 = addOv(lo, ar.lo)
			hi, o2 = addOv(hi, ar.hi)
			if o1 || o2 {
				ov = true
				break
			}
		}
		if !ov && (rng{lo, hi}).within(full) {
			r = rng{lo, hi}
		}
	case OpMulC:
		ar := ex.rangeOf(t.args[0])
		c := t.SValOf(t.val)
		x, o1 := mulOv(ar.lo, c)
		y, o2 := mulOv(ar.hi, c)
		if !o1 && !o2 {
			if x > y {
				x, y = y, x
			}
			if (rng{x, y}).within(full) {
				r = rng{x, y}
			}
		}
	case OpLShr:
		if t.args[1].IsConst() {
			k := t.args[1].val
			ar := ex.rangeOf(t.args[0])
			if ar.lo >= 0 {
				r = rng{ar.lo >> k, ar.hi >> k}
			} else if k > 0 && t.w-int(k) < 63 {
				r = rng{0, int64(mask(t.w - int(k)))}
			}
		}
	case OpAnd:
		for _, a := range t.args {
			if a.IsConst() && a.SVal() >= 0 {
				r = rng{0, a.SVal()}
			}
		}
		if r == full {
			for _, a := range t.args {
				if ar := ex.rangeOf(a); ar.lo >= 0 {
					r = rng{0, ar.hi}
					break
				}
			}
		}
	case OpURem:
		if t.args[1].IsConst() && t.args[1].SVal() > 0 {
			r = rng{0, t.args[1].SVal() - 1}
		}
	case OpUDiv:
		if t.args[1].IsConst() && t.args[1].SVal() > 0 {
			if ar := ex.rangeOf(t.args[0]); ar.lo >= 0 {
				r = rng{ar.lo / t.args[1].SVal(), ar.hi / t.args[1].SVal()}
			}
		}
	case OpSDiv:
		if t.args[1].IsConst() && t.args[1].SVal() > 0 {
			ar := ex.rangeOf(t.args[0])
			c := t.args[1].SVal()
			r = rng{ar.lo / c, ar.hi / c}
		}
	case OpSRem:
		if t.args[1].IsConst() && t.args[1].SVal() > 0 {
			ar := ex.rangeOf(t.args[0])
			c := t.args[1].SVal()
			if ar.lo >= 0 {
				r = rng{0, c - 1}
				if ar.hi < c-1 {
					r.hi = ar.hi
				}
			} else {
				r = rng{-(c - 1), c - 1}
			}
		}
	case OpIte:
		a, b := ex.rangeOf(t.args[1]), ex.rangeOf(t.args[2])
		r = a
		if b.lo < r.lo {
			r.lo = b.lo
		}
		if b.hi > r.hi {
			r.hi = b.hi
		}
	}
	if b, ok := ex.bounds[t.id]; ok {
		if b.lo > r.lo {
			r.lo = b.lo
		}
		if b.hi < r.hi {
			r.hi = b.hi
		}
	}
	if t.op == OpAdd && t.w == 64 && len(ex.bounds) > 0 {
		// difference facts are stored for the linear part (constant removed, either sign)
		tf := ex.tf
		d := int64(0)
		p := t
		if c := t.args[len(t.args)-1]; c.IsConst() {
			d = c.SVal()
			p = tf.Sub(t, c)
		}
		if d > -diffSafe && d < diffSafe {
			if b, ok := ex.bounds[p.id]; ok && p != t {
				if b.lo > -diffSafe && b.lo+d > r.lo {
					r.lo = b.lo + d
				}
				if b.hi < diffSafe && b.hi+d < r.hi {
					r.hi = b.hi + d
				}
			}
			if b, ok := ex.bounds[tf.Neg(p).id]; ok {
				// -p in [lo,hi]  =>  p in [-hi,-lo]
				if b.hi < diffSafe && b.hi > -diffSafe && -b.hi+d > r.lo {
					r.lo = -b.hi + d
				}
				if b.lo > -diffSafe && b.lo < diffSafe && -b.lo+d < r.hi {
					r.hi = -b.lo + d
				}
			}
		}
	}
	ex.rngMemo[t.id] = r
	return r
}

// SValOf interprets v as a signed value of t's width.
func (t *Term) SValOf(v uint64) int64 {
	if t.w >= 64 {
		return int64(v)
	}
	if v&(uint64(1)<<uint(t.w-1)) != 0 {
		v |= ^mask(t.w)
	}
	return int64(v)
}

// rangeDecide tries to decide a comparison atom by intervals.
func (ex *Exec) rangeDecide(c *Term) (val bool, ok bool) {
	neg := false
	if c.op == OpBNot {
		neg = true
		c = c.args[0]
	}
	if len(c.args) != 2 || c.args[0].w == 0 {
		return false, false
	}
	if !(c.args[0].IsConst() && c.args[1].IsConst()) {
		signedOp := c.op == OpSlt || c.op == OpSle || c.op == OpEq
		if !signedOp && (c.op == OpUlt || c.op == OpUle) && ex.rangeOf(c.args[0]).lo >= 0 && ex.rangeOf(c.args[1]).lo >= 0 {
			signedOp = true
		}
		if signedOp {
			if dr, ok := ex.diffRange(c.args[0], c.args[1]); ok {
				res, dec := false, false
				switch c.op {
				case OpSlt, OpUlt: // a-b < 0
					if dr.hi < 0 {
						res, dec = true, true
					} else if dr.lo >= 0 {
						res, dec = false, true
					}
				case OpSle, OpUle:
					if dr.hi <= 0 {
						res, dec = true, true
					} else if dr.lo > 0 {
						res, dec = false, true
					}
				case OpEq:
					if dr.hi < 0 || dr.lo > 0 {
						res, dec = false, true
					}
				}
				if dec {
					return res != neg, true
				}
			}
		}
	}
	a, b := ex.rangeOf(c.args[0]), ex.rangeOf(c.args[1])
	res, dec := false, false
	switch c.op {
	case OpSlt:
		if a.hi < b.lo {
			res, dec = true, true
		} else if a.lo >= b.hi {
			res, dec = false, true
		}
	case OpSle:
		if a.hi <= b.lo {
			res, dec = true, true
		} else if a.lo > b.hi {
			res, dec = false, true
		}
	case OpUlt:
		if a.lo >= 0 && b.lo >= 0 {
			if a.hi < b.lo {
				res, dec = true, true
			} else if a.lo >= b.hi {
				res, dec = false, true
			}
		} else if a.lo >= 0 && b.hi < 0 { // b is huge unsigned
			res, dec = true, true
		}
	case OpUle:
		if a.lo >= 0 && b.lo >= 0 {
			if a.hi <= b.lo {
				res, dec = true, true
			} else if a.lo > b.hi {
				res, dec = false, true
			}
		} else if a.lo >= 0 && b.hi < 0 {
			res, dec = true, true
		}
	case OpEq:
		if a.hi < b.lo || b.hi < a.lo {
			res, dec = false, true
		}
	}
	if !dec {
		return false, false
	}
	return res != neg, true
}

// ---------- difference bounds ----------
//
// Comparisons between two linear forms A and B whose values provably stay far from the
// wrap-around point are facts about the integer difference A-B. The linear part P of A-B
// (constant removed, sign normalised) is the key; facts P <= k / P >= k are kept in ex.bounds
// like any other term bound. This decides chains such as  !(L+c1 <= S)  =>  !(L+c2 <= S) for
// c2 >= c1 without a solver.

const diffSafe = int64(1) << 61

// diffKey returns (P, d, neg, ok) with A-B == sign*P + d as integers, sign = -1 if neg.
func (ex *Exec) diffKey(a, b *Term) (p *Term, d int64, neg bool, ok bool) {
	if a.w != 64 {
		return nil, 0, false, false
	}
	ra, rb := ex.rangeOf(a), ex.rangeOf(b)
	if ra.lo < -diffSafe || ra.hi > diffSafe || rb.lo < -diffSafe || rb.hi > diffSafe {
		return nil, 0, false, false
	}
	tf := ex.tf
	diff := tf.Sub(a, b)
	d = 0
	p = diff
	if diff.IsConst() {
		return nil, 0, false, false
	}
	if diff.op == OpAdd && diff.args[len(diff.args)-1].IsConst() {
		c := diff.args[len(diff.args)-1]
		d = c.SVal()
		p = tf.Sub(diff, c)
	}
	if d < -diffSafe || d > diffSafe {
		return nil, 0, false, false
	}
	n := tf.Neg(p)
	if n.id < p.id {
		return n, d, true, true
	}
	return p, d, false, true
}

// noteDiff records the fact  A-B <= k  (upper=true) or A-B >= k.
func (ex *Exec) noteDiff(a, b *Term, k int64, upper bool) {
	p, d, neg, ok := ex.diffKey(a, b)
	if !ok {
		return
	}
	// sign*P + d <= k  =>  sign*P <= k-d
	k -= d
	if neg {
		// -P <= k  =>  P >= -k ;  -P >= k => P <= -k
		k = -k
		upper = !upper
	}
	r, has := ex.bounds[p.id]
	if !has {
		r = fullRange(64)
	}
	if upper && k < r.hi {
		r.hi = k
	}
	if !upper && k > r.lo {
		r.lo = k
	}
	ex.bounds[p.id] = r
	ex.rngMemo = nil
}

// diffRange returns the integer range of A-B from difference facts, if A and B are safe.
func (ex *Exec) diffRange(a, b *Term) (rng, bool) {
	p, d, neg, ok := ex.diffKey(a, b)
	if !ok {
		return rng{}, false
	}
	r := ex.rangeOf(p)
	if r.lo < -2*diffSafe || r.hi > 2*diffSafe {
		// clamp: the true difference is within +-2*diffSafe anyway
		if r.lo < -2*diffSafe {
			r.lo = -2 * diffSafe
		}
		if r.hi > 2*diffSafe {
			r.hi = 2 * diffSafe
		}
	}
	if neg {
		r = rng{-r.hi, -r.lo}
	}
	return rng{r.lo + d, r.hi + d}, true
}

package main

// Signed interval analysis of terms under the current path condition. It is
// used to (a) decide comparisons without the solver, (b) replace signed
// division/remainder by powers of two with shifts/masks when the dividend is
// known non-negative, (c) drop sign-extension of truncations that cannot
// overflow. Every rewrite is valid under the path condition it was derived
// from, and every query carries that path condition.

import "math/bits"

type rng struct {
	lo, hi int64
}

func fullRange(w int) rng {
	if w >= 64 {
		return rng{-1 << 63, 1<<63 - 1}
	}
	return rng{-(int64(1) << uint(w-1)), int64(1)<<uint(w-1) - 1}
}

func (r rng) within(o rng) bool { return r.lo >= o.lo && r.hi <= o.hi }

func addOv(a, b int64) (int64, bool) {
	c := a + b
	if (a > 0 && b > 0 && c < 0) || (a < 0 && b < 0 && c >= 0) {
		return 0, true
	}
	return c, false
}

func mulOv(a, b int64) (int64, bool) {
	if a == 0 || b == 0 {
		return 0, false
	}
	neg := (a < 0) != (b < 0)
	ua, ub := uint64(a), uint64(b)
	if a < 0 {
		ua = uint64(-a)
	}
	if b < 0 {
		ub = uint64(-b)
	}
	hi, lo := bits.Mul64(ua, ub)
	if hi != 0 || lo > 1<<63-1 {
		return 0, true
	}
	if neg {
		return -int64(lo), false
	}
	return int64(lo), false
}

// noteBound records bounds implied by an atom of the path condition.
func (ex *Exec) noteBound(c *Term) {
	pos := true
	if c.op == OpBNot {
		pos = false
		c = c.args[0]
	}
	if len(c.args) != 2 || c.args[0].w == 0 {
		return
	}
	a, b := c.args[0], c.args[1]
	set := func(t *Term, lo, hi int64, hasLo, hasHi bool) {
		if t.IsConst() {
			return
		}
		r, ok := ex.bounds[t.id]
		if !ok {
			r = fullRange(t.w)
		}
		if hasLo && lo > r.lo {
			r.lo = lo
		}
		if hasHi && hi < r.hi {
			r.hi = hi
		}
		ex.bounds[t.id] = r
		ex.rngMemo = nil
	}
	switch c.op {
	case OpSlt: // a < b
		if pos {
			if b.IsConst() && b.SVal() > fullRange(b.w).lo {
				set(a, 0, b.SVal()-1, false, true)
			}
			if a.IsConst() && a.SVal() < fullRange(a.w).hi {
				set(b, a.SVal()+1, 0, true, false)
			}
		} else { // a >= b
			if b.IsConst() {
				set(a, b.SVal(), 0, true, false)
			}
			if a.IsConst() {
				set(b, 0, a.SVal(), false, true)
			}
		}
	case OpSle:
		if pos {
			if b.IsConst() {
				set(a, 0, b.SVal(), false, true)
			}
			if a.IsConst() {
				set(b, a.SVal(), 0, true, false)
			}
		} else { // a > b
			if b.IsConst() && b.SVal() < fullRange(b.w).hi {
				set(a, b.SVal()+1, 0, true, false)
			}
			if a.IsConst() && a.SVal() > fullRange(a.w).lo {
				set(b, 0, a.SVal()-1, false, true)
			}
		}
	case OpUlt:
		if pos && b.IsConst() && b.SVal() > 0 { // a <u b, b small: a in [0, b-1]
			set(a, 0, b.SVal()-1, true, true)
		}
		if !pos && a.IsConst() && a.SVal() >= 0 { // b <=u a
			set(b, 0, a.SVal(), true, true)
		}
	case OpUle:
		if pos && b.IsConst() && b.SVal() >= 0 {
			set(a, 0, b.SVal(), true, true)
		}
		if !pos && a.IsConst() && a.SVal() > 0 { // b <u a
			set(b, 0, a.SVal()-1, true, true)
		}
	case OpEq:
		if pos && b.IsConst() {
			set(a, b.SVal(), b.SVal(), true, true)
		}
	}
}

func (ex *Exec) rangeOf(t *Term) rng {
	if t.w == 0 {
		return rng{0, 1}
	}
	if t.IsConst() {
		return rng{t.SVal(), t.SVal()}
	}
	if ex.rngMemo == nil {
		ex.rngMemo = map[int]rng{}
	}
	if r, ok := ex.rngMemo[t.id]; ok {
		return r
	}
	full := fullRange(t.w)
	r := full
	switch t.op {
	case OpZExt:
		in := t.args[0]
		r = rng{0, int64(mask(in.w))}
		if in.w >= 63 {
			r = full
		}
		if ir := ex.rangeOf(in); ir.lo >= 0 {
			r = ir
		}
	case OpSExt:
		r = ex.rangeOf(t.args[0])
	case OpExtract:
		if t.extra&0xff == 0 {
			ir := ex.rangeOf(t.args[0])
			if ir.within(full) {
				r = ir
			}
		}
	case OpAdd:
		lo, hi := int64(0), int64(0)
		ov := false
		for _, a := range t.args {
			ar := ex.rangeOf(a)
			var o1, o2 bool
			lo, o1 = addOv(lo, ar.lo)
			hi, o2 = addOv(hi, ar.hi)
			if o1 || o2 {
				ov = true
				break
			}
		}
		if !ov && (rng{lo, hi}).within(full) {
			r = rng{lo, hi}
		}
	case OpMulC:
		ar := ex.rangeOf(t.args[0])
		c := t.SValOf(t.val)
		x, o1 := mulOv(ar.lo, c)
		y, o2 := mulOv(ar.hi, c)
		if !o1 && !o2 {
			if x > y {
				x, y = y, x
			}
			if (rng{x, y}).within(full) {
				r = rng{x, y}
			}
		}
	case OpLShr:
		if t.args[1].IsConst() {
			k := t.args[1].val
			ar := ex.rangeOf(t.args[0])
			if ar.lo >= 0 {
				r = rng{ar.lo >> k, ar.hi >> k}
			} else if k > 0 && t.w-int(k) < 63 {
				r = rng{0, int64(mask(t.w - int(k)))}
			}
		}
	case OpAnd:
		for _, a := range t.args {
			if a.IsConst() && a.SVal() >= 0 {
				r = rng{0, a.SVal()}
			}
		}
		if r == full {
			for _, a := range t.args {
				if ar := ex.rangeOf(a); ar.lo >= 0 {
					r = rng{0, ar.hi}
					break
				}
			}
		}
	case OpURem:
		if t.args[1].IsConst() && t.args[1].SVal() > 0 {
			r = rng{0, t.args[1].SVal() - 1}
		}
	case OpUDiv:
		if t.args[1].IsConst() && t.args[1].SVal() > 0 {
			if ar := ex.rangeOf(t.args[0]); ar.lo >= 0 {
				r = rng{ar.lo / t.args[1].SVal(), ar.hi / t.args[1].SVal()}
			}
		}
	case OpSDiv:
		if t.args[1].IsConst() && t.args[1].SVal() > 0 {
			ar := ex.rangeOf(t.args[0])
			c := t.args[1].SVal()
			r = rng{ar.lo / c, ar.hi / c}
		}
	case OpSRem:
		if t.args[1].IsConst() && t.args[1].SVal() > 0 {
			ar := ex.rangeOf(t.args[0])
			c := t.args[1].SVal()
			if ar.lo >= 0 {
				r = rng{0, c - 1}
				if ar.hi < c-1 {
					r.hi = ar.hi
				}
			} else {
				r = rng{-(c - 1), c - 1}
			}
		}
	case OpIte:
		a, b := ex.rangeOf(t.args[1]), ex.rangeOf(t.args[2])
		r = a
		if b.lo < r.lo {
			r.lo = b.lo
		}
		if b.hi > r.hi {
			r.hi = b.hi
		}
	}
	if b, ok := ex.bounds[t.id]; ok {
		if b.lo > r.lo {
			r.lo = b.lo
		}
		if b.hi < r.hi {
			r.hi = b.hi
		}
	}
	ex.rngMemo[t.id] = r
	return r
}

// SValOf interprets v as a signed value of t's width.
func (t *Term) SValOf(v uint64) int64 {
	if t.w >= 64 {
		return int64(v)
	}
	if v&(uint64(1)<<uint(t.w-1)) != 0 {
		v |= ^mask(t.w)
	}
	return int64(v)
}

// rangeDecide tries to decide a comparison atom by intervals.
func (ex *Exec) rangeDecide(c *Term) (val bool, ok bool) {
	neg := false
	if c.op == OpBNot {
		neg = true
		c = c.args[0]
	}
	if len(c.args) != 2 || c.args[0].w == 0 {
		return false, false
	}
	a, b := ex.rangeOf(c.args[0]), ex.rangeOf(c.args[1])
	res, dec := false, false
	switch c.op {
	case OpSlt:
		if a.hi < b.lo {
			res, dec = true, true
		} else if a.lo >= b.hi {
			res, dec = false, true
		}
	case OpSle:
		if a.hi <= b.lo {
			res, dec = true, true
		} else if a.lo > b.hi {
			res, dec = false, true
		}
	case OpUlt:
		if a.lo >= 0 && b.lo >= 0 {
			if a.hi < b.lo {
				res, dec = true, true
			} else if a.lo >= b.hi {
				res, dec = false, true
			}
		} else if a.lo >= 0 && b.hi < 0 { // b is huge unsigned
			res, dec = true, true
		}
	case OpUle:
		if a.lo >= 0 && b.lo >= 0 {
			if a.hi <= b.lo {
				res, dec = true, true
			} else if a.lo > b.hi {
				res, dec = false, true
			}
		} else if a.lo >= 0 && b.hi < 0 {
			res, dec = true, true
		}
	case OpEq:
		if a.hi < b.lo || b.hi < a.lo {
			res, dec = false, true
		}
	}
	if !dec {
		return false, false
	}
	return res != neg, true
}

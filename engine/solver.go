package main

// Solver layer: a persistent incremental `z3 -in` process whose assertion stack
// mirrors the path condition of the path being executed, plus one-shot
// fall-backs (fresh z3, z3-new, cvc5 with integer blasting) for queries the
// incremental process cannot decide.

import (
	"bufio"
	"bytes"
	"fmt"
	"io"
	"os"
	"os/exec"
	"strconv"
	"strings"
	"sync"
	"time"
)

var slowMS, _ = strconv.Atoi(os.Getenv("VERIF_SLOW"))

func clip(s string, n int) string {
	if len(s) > n {
		return s[:n] + "..."
	}
	return s
}

var dumpSeq int

type Res int

const (
	Unsat Res = iota
	Sat
	Unknown
)

func (r Res) String() string { return [...]string{"unsat", "sat", "unknown"}[r] }

type Model struct {
	vars  map[string]uint64            // variable name -> value (bools 0/1)
	funcs map[string]map[string]uint64 // uf name -> "a,b" -> value
}

type level struct {
	term    *Term
	defined []int
	decls   []string
}

type Solver struct {
	cmd         *exec.Cmd
	in          io.WriteCloser
	out         *bufio.Reader
	stack       []level
	defined     map[int]bool
	declared    map[string]bool
	stats       *Stats
	log         io.Writer
	timeout     int // ms, stage 2 (race) time limit
	quick       int // ms, stage 1 (persistent z3) time limit
	lastWho     string
	expectUnsat bool
	dead        bool
}

type Stats struct {
	mu          sync.Mutex
	Feas        int
	Assertion   int
	SatN        int
	UnsatN      int
	UnknownN    int
	CacheHits   int
	WitnessHits int
	Fallbacks   int
	SolverTime  time.Duration
	MaxQuery    time.Duration
	SolversUsed map[string]int
}

func NewSolver(st *Stats) *Solver {
	s := &Solver{stats: st, timeout: 60000, quick: 400}
	s.start()
	return s
}

func (s *Solver) start() {
	s.cmd = exec.Command("z3", "-in")
	var err error
	s.in, err = s.cmd.StdinPipe()
	if err != nil {
		panic(err)
	}
	o, err := s.cmd.StdoutPipe()
	if err != nil {
		panic(err)
	}
	s.cmd.Stderr = os.Stderr
	s.out = bufio.NewReaderSize(o, 1<<20)
	if err := s.cmd.Start(); err != nil {
		panic(err)
	}
	s.stack = nil
	s.defined = map[int]bool{}
	s.declared = map[string]bool{}
	s.send("(set-option :print-success false)\n(set-option :produce-models true)\n")
}

func (s *Solver) Close() {
	if s.cmd != nil && s.cmd.Process != nil {
		s.in.Close()
		s.cmd.Process.Kill()
		s.cmd.Wait()
	}
}

func (s *Solver) send(txt string) {
	if s.log != nil {
		io.WriteString(s.log, txt)
	}
	if _, err := io.WriteString(s.in, txt); err != nil {
		s.dead = true
	}
}

// readUntilMarker reads solver output up to the DONE marker.
func (s *Solver) readUntilMarker() []string {
	var lines []string
	for {
		l, err := s.out.ReadString('\n')
		l = strings.TrimRight(l, "\r\n")
		if l == "DONE" {
			return lines
		}
		if l != "" {
			lines = append(lines, l)
		}
		if err != nil {
			s.dead = true
			return append(lines, "(error \"solver died\")")
		}
	}
}

func (s *Solver) pop(n int) {
	if n <= 0 {
		return
	}
	for i := 0; i < n; i++ {
		lv := s.stack[len(s.stack)-1]
		for _, id := range lv.defined {
			delete(s.defined, id)
		}
		for _, d := range lv.decls {
			delete(s.declared, d)
		}
		s.stack = s.stack[:len(s.stack)-1]
	}
	s.send(fmt.Sprintf("(pop %d)\n", n))
}

func (s *Solver) pushAssert(t *Term) {
	s.send("(push 1)\n")
	lv := level{term: t}
	s.emitDefs([]*Term{t}, &lv)
	s.send("(assert " + t.ref() + ")\n")
	s.stack = append(s.stack, lv)
}

func (s *Solver) emitDefs(roots []*Term, lv *level) {
	ts := collect(roots, s.defined)
	before := map[string]bool{}
	for k := range s.declared {
		before[k] = true
	}
	txt := declText(ts, s.declared)
	for _, t := range ts {
		lv.defined = append(lv.defined, t.id)
	}
	for k := range s.declared {
		if !before[k] {
			lv.decls = append(lv.decls, k)
		}
	}
	if txt != "" {
		s.send(txt)
	}
}

func (s *Solver) align(pc []*Term) {
	k := 0
	for k < len(pc) && k < len(s.stack) && s.stack[k].term == pc[k] {
		k++
	}
	s.pop(len(s.stack) - k)
	for _, t := range pc[k:] {
		s.pushAssert(t)
	}
}

// Check decides satisfiability of pc ∧ extra.
//
// Stage 1: the worker's persistent z3, (reset) + full formula, short time limit - answers the
// many easy (mostly satisfiable) feasibility queries in milliseconds. The old z3's push/pop
// mode is avoided: it switches to a much slower core for this bit-vector/UF mix.
// Stage 2 (stage 1 said unknown): a race between a fresh z3 and cvc5 with integer blasting
// (--solve-bv-as-int=sum, which keeps mod-2^k semantics); measured on the sector arithmetic of
// this code base cvc5-int proves in 0.05-1.5 s what bit-blasting needs 3-60 s for, while z3 is
// the faster one on satisfiable instances. First definite answer wins.
func (s *Solver) Check(pc []*Term, extra *Term, wantModel bool) (Res, *Model) {
	if s.dead {
		s.Close()
		s.dead = false
		s.start()
	}
	t0 := time.Now()
	q, all := fullQueryText(pc, extra, false)
	var lines []string
	if !s.expectUnsat {
		s.send(fmt.Sprintf("(reset)\n(set-option :print-success false)\n(set-option :produce-models true)\n(set-option :timeout %d)\n", s.quick))
		s.send(q)
		s.send("(echo \"DONE\")\n")
		lines = s.readUntilMarker()
	}
	res := Unknown
	for _, l := range lines {
		switch {
		case l == "sat":
			res = Sat
		case l == "unsat":
			res = Unsat
		case strings.HasPrefix(l, "(error"):
			fmt.Fprintln(os.Stderr, "solver error:", l)
			res = Unknown
		}
	}
	var m *Model
	who := "z3"
	if res == Sat && wantModel {
		m = s.getModel(append(append([]*Term{}, pc...), extra))
	}
	if res == Unknown {
		res, m, who = raceOneShot(q, all, wantModel, time.Duration(s.timeout)*time.Millisecond)
	}
	s.lastWho = who
	d := time.Since(t0)
	if slowMS > 0 && d > time.Duration(slowMS)*time.Millisecond {
		fmt.Fprintf(os.Stderr, "[slow] %.2fs res=%v by %s |pc|=%d extra=%s\n", d.Seconds(), res, who, len(pc), clip(extra.String(), 300))
		if dir := os.Getenv("VERIF_DUMP"); dir != "" {
			dumpSeq++
			os.WriteFile(fmt.Sprintf("%s/q%d_%d_%s.smt2", dir, os.Getpid(), dumpSeq, res), []byte(q), 0o644)
		}
	}
	s.stats.mu.Lock()
	s.stats.SolverTime += d
	if d > s.stats.MaxQuery {
		s.stats.MaxQuery = d
	}
	if s.stats.SolversUsed == nil {
		s.stats.SolversUsed = map[string]int{}
	}
	if res != Unknown {
		s.stats.SolversUsed[who]++
	}
	s.stats.mu.Unlock()
	return res, m
}

// modelCommands returns get-value commands for every variable and UF application of the query.
func modelCommands(all []*Term) string {
	var sb strings.Builder
	var names []string
	for _, t := range all {
		if t.op == OpVar {
			names = append(names, smtName(t.name))
		}
	}
	if len(names) > 0 {
		sb.WriteString("(echo \"VARS\")\n(get-value (" + strings.Join(names, " ") + "))\n")
	}
	for _, a := range all {
		if a.op != OpApply {
			continue
		}
		var q []string
		for _, x := range a.args {
			q = append(q, x.ref())
		}
		q = append(q, a.ref())
		sb.WriteString("(echo \"APP " + a.name + "\")\n(get-value (" + strings.Join(q, " ") + "))\n")
	}
	return sb.String()
}

func parseOneShotModel(out string) *Model {
	m := &Model{vars: map[string]uint64{}, funcs: map[string]map[string]uint64{}}
	sections := strings.Split(out, "\n")
	cur := ""
	var buf []string
	flush := func() {
		if cur == "" {
			return
		}
		txt := strings.Join(buf, " ")
		if cur == "VARS" {
			parseValues(txt, func(name string, v uint64) { m.vars[name] = v })
		} else if strings.HasPrefix(cur, "APP ") {
			fn := strings.TrimPrefix(cur, "APP ")
			var vals []uint64
			parseValues(txt, func(name string, v uint64) { vals = append(vals, v) })
			if len(vals) >= 2 {
				var ks []string
				for _, v := range vals[:len(vals)-1] {
					ks = append(ks, strconv.FormatUint(v, 10))
				}
				if m.funcs[fn] == nil {
					m.funcs[fn] = map[string]uint64{}
				}
				m.funcs[fn][strings.Join(ks, ",")] = vals[len(vals)-1]
			}
		}
		buf = nil
	}
	for _, l := range sections {
		l = strings.TrimSpace(l)
		l = strings.Trim(l, "\"")
		if l == "VARS" || strings.HasPrefix(l, "APP ") {
			flush()
			cur = l
			continue
		}
		if cur != "" {
			buf = append(buf, l)
		}
	}
	flush()
	return m
}

type raceAns struct {
	r   Res
	m   *Model
	who string
}

// raceOneShot runs a fresh z3 and cvc5 (integer blasting) on the query; first definite answer wins.
func raceOneShot(q string, all []*Term, wantModel bool, timeout time.Duration) (Res, *Model, string) {
	text := q
	if wantModel {
		text += modelCommands(all)
	}
	members := []oneShot{
		{"cvc5-int", []string{"--lang=smt2", "-q", "--solve-bv-as-int=sum", "--produce-models"}, "(set-logic ALL)\n"},
		{"z3", []string{"-in"}, "(set-option :produce-models true)\n"},
	}
	ch := make(chan raceAns, len(members))
	var cmds []*exec.Cmd
	var mu sync.Mutex
	for _, o := range members {
		o := o
		go func() {
			bin := o.name
			if strings.HasPrefix(bin, "cvc5") {
				bin = "cvc5"
			}
			cmd := exec.Command(bin, o.args...)
			cmd.Stdin = strings.NewReader(o.pre + text)
			var out bytes.Buffer
			cmd.Stdout = &out
			cmd.Stderr = &out
			mu.Lock()
			cmds = append(cmds, cmd)
			mu.Unlock()
			if err := cmd.Start(); err != nil {
				ch <- raceAns{Unknown, nil, o.name}
				return
			}
			done := make(chan struct{})
			go func() { cmd.Wait(); close(done) }()
			select {
			case <-done:
			case <-time.After(timeout):
				cmd.Process.Kill()
				<-done
				ch <- raceAns{Unknown, nil, o.name}
				return
			}
			txt := out.String()
			res := Unknown
			for _, l := range strings.Split(txt, "\n") {
				l = strings.TrimSpace(l)
				if l == "sat" {
					res = Sat
					break
				}
				if l == "unsat" {
					res = Unsat
					break
				}
			}
			if strings.Contains(txt, "(error") && res != Unsat {
				// errors after an unsat answer come from get-value without a model; anything else is inconclusive
				if !(res == Sat && !wantModel) {
					if res == Sat && strings.Contains(txt, "VARS") {
						// keep sat; model parsing below tolerates partial output
					} else {
						res = Unknown
					}
				}
			}
			var m *Model
			if res == Sat && wantModel {
				m = parseOneShotModel(txt)
			}
			ch <- raceAns{res, m, o.name}
		}()
	}
	best := raceAns{Unknown, nil, ""}
	for range members {
		a := <-ch
		if a.r != Unknown {
			best = a
			break
		}
	}
	mu.Lock()
	for _, c := range cmds {
		if c.Process != nil {
			c.Process.Kill()
		}
	}
	mu.Unlock()
	return best.r, best.m, best.who
}

func (s *Solver) getModel(roots []*Term) *Model {
	m := &Model{vars: map[string]uint64{}, funcs: map[string]map[string]uint64{}}
	all := collect(roots, map[int]bool{})
	var names []string
	var applies []*Term
	for _, t := range all {
		if t.op == OpVar {
			names = append(names, smtName(t.name))
		}
		if t.op == OpApply {
			applies = append(applies, t)
		}
	}
	if len(names) > 0 {
		s.send("(get-value (" + strings.Join(names, " ") + "))\n(echo \"DONE\")\n")
		txt := strings.Join(s.readUntilMarker(), " ")
		parseValues(txt, func(name string, v uint64) { m.vars[name] = v })
	}
	for _, a := range applies {
		var q []string
		for _, x := range a.args {
			q = append(q, x.ref())
		}
		q = append(q, a.ref())
		s.send("(get-value (" + strings.Join(q, " ") + "))\n(echo \"DONE\")\n")
		txt := strings.Join(s.readUntilMarker(), " ")
		var vals []uint64
		parseValues(txt, func(name string, v uint64) { vals = append(vals, v) })
		if len(vals) == len(a.args)+1 {
			var ks []string
			for _, v := range vals[:len(a.args)] {
				ks = append(ks, strconv.FormatUint(v, 10))
			}
			if m.funcs[a.name] == nil {
				m.funcs[a.name] = map[string]uint64{}
			}
			m.funcs[a.name][strings.Join(ks, ",")] = vals[len(a.args)]
		}
	}
	return m
}

// parseValues parses "((name value) (name value))" where value is #x.., #b.., true, false.
func parseValues(txt string, f func(name string, v uint64)) {
	i := 0
	n := len(txt)
	for i < n {
		// find "(" starting a pair
		if txt[i] != '(' {
			i++
			continue
		}
		j := i + 1
		for j < n && txt[j] == ' ' {
			j++
		}
		if j >= n || txt[j] == '(' {
			i++
			continue
		}
		// name
		var name string
		if txt[j] == '|' {
			k := strings.IndexByte(txt[j+1:], '|')
			if k < 0 {
				return
			}
			name = txt[j+1 : j+1+k]
			j = j + 2 + k
		} else {
			k := j
			depth := 0
			for k < n && (depth > 0 || (txt[k] != ' ')) {
				if txt[k] == '(' {
					depth++
				}
				if txt[k] == ')' {
					if depth == 0 {
						break
					}
					depth--
				}
				k++
			}
			name = txt[j:k]
			j = k
		}
		for j < n && txt[j] == ' ' {
			j++
		}
		k := j
		for k < n && txt[k] != ')' && txt[k] != ' ' {
			k++
		}
		vs := txt[j:k]
		var v uint64
		ok := true
		switch {
		case strings.HasPrefix(vs, "#x"):
			v, _ = strconv.ParseUint(vs[2:], 16, 64)
		case strings.HasPrefix(vs, "#b"):
			v, _ = strconv.ParseUint(vs[2:], 2, 64)
		case vs == "true":
			v = 1
		case vs == "false":
			v = 0
		default:
			ok = false
		}
		if ok {
			f(name, v)
		}
		i = k
	}
}

// ---------- one-shot fall-back solvers ----------

func fullQueryText(pc []*Term, extra *Term, wantModel bool) (string, []*Term) {
	roots := append(append([]*Term{}, pc...), extra)
	all := collect(roots, map[int]bool{})
	var sb strings.Builder
	sb.WriteString(declText(all, map[string]bool{}))
	for _, t := range roots {
		sb.WriteString("(assert " + t.ref() + ")\n")
	}
	sb.WriteString("(check-sat)\n")
	return sb.String(), all
}

type oneShot struct {
	name string
	args []string
	pre  string
}

var fallbackSolvers = []oneShot{
	{"z3", []string{"-in"}, ""},
	{"cvc5-int", []string{"--lang=smt2", "--solve-bv-as-int=sum", "--incremental"}, "(set-logic ALL)\n"},
	{"z3-new", []string{"-in"}, ""},
}

func runOneShot(o oneShot, query string, timeout time.Duration) Res {
	bin := o.name
	if strings.HasPrefix(bin, "cvc5") {
		bin = "cvc5"
	}
	cmd := exec.Command(bin, o.args...)
	cmd.Stdin = strings.NewReader(o.pre + query)
	var out bytes.Buffer
	cmd.Stdout = &out
	cmd.Stderr = &out
	if err := cmd.Start(); err != nil {
		return Unknown
	}
	done := make(chan struct{})
	go func() { cmd.Wait(); close(done) }()
	select {
	case <-done:
	case <-time.After(timeout):
		cmd.Process.Kill()
		<-done
		return Unknown
	}
	txt := out.String()
	if strings.Contains(txt, "(error") {
		return Unknown
	}
	for _, l := range strings.Split(txt, "\n") {
		l = strings.TrimSpace(l)
		if l == "sat" {
			return Sat
		}
		if l == "unsat" {
			return Unsat
		}
	}
	return Unknown
}

// Portfolio runs the fall-back solvers in parallel and returns the first definite answer.
// With all==true it waits for every member and reports disagreement as Unknown.
func Portfolio(pc []*Term, extra *Term, timeout time.Duration, all bool, st *Stats) (Res, string) {
	q, _ := fullQueryText(pc, extra, false)
	type ans struct {
		r Res
		n string
	}
	ch := make(chan ans, len(fallbackSolvers))
	t0 := time.Now()
	for _, o := range fallbackSolvers {
		o := o
		go func() { ch <- ans{runOneShot(o, q, timeout), o.name} }()
	}
	res, who := Unknown, ""
	var got []ans
	for range fallbackSolvers {
		a := <-ch
		got = append(got, a)
		if a.r != Unknown && res == Unknown {
			res, who = a.r, a.n
			if !all {
				break
			}
		}
	}
	if all {
		for _, a := range got {
			if a.r != Unknown && a.r != res {
				fmt.Fprintf(os.Stderr, "SOLVER DISAGREEMENT: %s=%v %s=%v\n", who, res, a.n, a.r)
				res = Unknown
			}
		}
	}
	st.mu.Lock()
	st.Fallbacks++
	st.SolverTime += time.Since(t0)
	if st.SolversUsed == nil {
		st.SolversUsed = map[string]int{}
	}
	if who != "" {
		st.SolversUsed[who]++
	}
	st.mu.Unlock()
	return res, who
}

// ---------- global query cache (shared by workers) ----------

type qkey struct{ a, b uint64 }

var (
	qcacheMu sync.Mutex
	qcache   = map[qkey]Res{}
)

func pcKey(pc []*Term, extra *Term) qkey {
	var a, b uint64 = 14695981039346656037, 1099511628211
	for _, t := range pc {
		a = (a ^ t.h1) * 1099511628211
		b = (b + t.h1*0x9E3779B97F4A7C15) ^ (b >> 29)
	}
	a = (a ^ extra.h1) * 1099511628211
	b = (b + extra.h1*0xC2B2AE3D27D4EB4F) ^ (b >> 31)
	return qkey{a, b}
}

package main

// Hash-consed SMT terms over bit-vectors and booleans, with light
// simplification (constant folding, linear normal form for add/sub) and
// SMT-LIB2 printing.

import (
	"fmt"
	"math/bits"
	"sort"
	"strings"
)

type Op uint8

const (
	OpConst Op = iota // bit-vector constant (val)
	OpTrue
	OpFalse
	OpVar   // named variable (bv w>0 or bool w==0)
	OpApply // uninterpreted function name(args) -> bv w
	OpAdd   // n-ary, normalised: args are summands (possibly OpMulC), last const folded
	OpMulC  // args[0] * val (constant coefficient)
	OpMul
	OpUDiv
	OpURem
	OpSDiv
	OpSRem
	OpAnd
	OpOr
	OpXor
	OpNot
	OpShl
	OpLShr
	OpAShr
	OpConcat
	OpExtract // extra = hi<<8|lo
	OpZExt
	OpSExt
	OpIte
	OpEq
	OpUlt
	OpUle
	OpSlt
	OpSle
	OpBAnd
	OpBOr
	OpBNot
)

type Term struct {
	id    int
	op    Op
	w     int // width in bits; 0 = Bool
	args  []*Term
	val   uint64
	name  string
	extra int
	h1    uint64           // structural hash (stable across workers)
	vars  map[int]struct{} // lazily computed set of var ids (for free-variable checks)
}

type TF struct { // term factory (one per worker)
	tab   map[string]*Term
	next  int
	True  *Term
	False *Term
}

func NewTF() *TF {
	f := &TF{tab: map[string]*Term{}}
	f.True = f.mk(&Term{op: OpTrue})
	f.False = f.mk(&Term{op: OpFalse})
	return f
}

func mask(w int) uint64 {
	if w >= 64 {
		return ^uint64(0)
	}
	return (uint64(1) << uint(w)) - 1
}

func (f *TF) mk(t *Term) *Term {
	var sb strings.Builder
	fmt.Fprintf(&sb, "%d|%d|%d|%d|%s", t.op, t.w, t.val, t.extra, t.name)
	for _, a := range t.args {
		fmt.Fprintf(&sb, "|%d", a.id)
	}
	k := sb.String()
	if e, ok := f.tab[k]; ok {
		return e
	}
	t.id = f.next
	f.next++
	// structural hash
	h := uint64(1469598103934665603)
	mix := func(x uint64) {
		h ^= x
		h *= 1099511628211
		h = bits.RotateLeft64(h, 23)
	}
	mix(uint64(t.op))
	mix(uint64(t.w))
	mix(t.val)
	mix(uint64(t.extra))
	for i := 0; i < len(t.name); i++ {
		mix(uint64(t.name[i]))
	}
	for _, a := range t.args {
		mix(a.h1)
	}
	t.h1 = h
	f.tab[k] = t
	return t
}

func (t *Term) IsConst() bool { return t.op == OpConst || t.op == OpTrue || t.op == OpFalse }
func (t *Term) IsTrue() bool  { return t.op == OpTrue }
func (t *Term) IsFalse() bool { return t.op == OpFalse }

// signed value of constant
func (t *Term) SVal() int64 {
	if t.w >= 64 {
		return int64(t.val)
	}
	v := t.val
	if v&(uint64(1)<<uint(t.w-1)) != 0 {
		v |= ^mask(t.w)
	}
	return int64(v)
}

func (f *TF) Const(w int, v uint64) *Term {
	if w <= 0 {
		panic("Const width")
	}
	return f.mk(&Term{op: OpConst, w: w, val: v & mask(w)})
}
func (f *TF) Bool(b bool) *Term {
	if b {
		return f.True
	}
	return f.False
}
func (f *TF) Var(name string, w int) *Term { return f.mk(&Term{op: OpVar, w: w, name: name}) }
func (f *TF) Apply(name string, w int, args ...*Term) *Term {
	return f.mk(&Term{op: OpApply, w: w, name: name, args: args})
}

// ---------- linear sums ----------

type linTerm struct {
	t *Term
	c uint64
}

func (f *TF) decompose(t *Term, coef uint64, m map[int]*linTerm, k *uint64) {
	switch t.op {
	case OpConst:
		*k += coef * t.val
	case OpAdd:
		for _, a := range t.args {
			f.decompose(a, coef, m, k)
		}
	case OpMulC:
		f.decompose(t.args[0], coef*t.val, m, k)
	default:
		if e, ok := m[t.id]; ok {
			e.c += coef
		} else {
			m[t.id] = &linTerm{t, coef}
		}
	}
}

func (f *TF) buildSum(w int, m map[int]*linTerm, k uint64) *Term {
	ids := make([]int, 0, len(m))
	for id, e := range m {
		if e.c&mask(w) != 0 {
			ids = append(ids, id)
		}
	}
	sort.Ints(ids)
	var args []*Term
	for _, id := range ids {
		e := m[id]
		c := e.c & mask(w)
		if c == 1 {
			args = append(args, e.t)
		} else {
			args = append(args, f.mk(&Term{op: OpMulC, w: w, args: []*Term{e.t}, val: c}))
		}
	}
	k &= mask(w)
	if len(args) == 0 {
		return f.Const(w, k)
	}
	if k != 0 {
		args = append(args, f.Const(w, k))
	}
	if len(args) == 1 {
		return args[0]
	}
	return f.mk(&Term{op: OpAdd, w: w, args: args})
}

// lowExtract64 reports whether t is the low part of a 64-bit term.
func lowExtract64(t *Term) bool {
	return t.op == OpExtract && t.extra&0xff == 0 && t.args[0].w == 64
}

// lift64 returns a 64-bit term whose low t.w bits equal t.
func (f *TF) lift64(t *Term) *Term {
	if lowExtract64(t) {
		return t.args[0]
	}
	if t.IsConst() {
		return f.Const(64, uint64(t.SVal()))
	}
	return f.ZExt(t, 64)
}

func (f *TF) Add(a, b *Term) *Term {
	if a.IsConst() && b.IsConst() {
		return f.Const(a.w, a.val+b.val)
	}
	if a.w < 64 && (lowExtract64(a) || lowExtract64(b)) {
		// truncation distributes over addition: keep the arithmetic wide and linear
		return f.Extract(f.Add(f.lift64(a), f.lift64(b)), a.w-1, 0)
	}
	m := map[int]*linTerm{}
	var k uint64
	f.decompose(a, 1, m, &k)
	f.decompose(b, 1, m, &k)
	return f.buildSum(a.w, m, k)
}
func (f *TF) Sub(a, b *Term) *Term {
	if a.IsConst() && b.IsConst() {
		return f.Const(a.w, a.val-b.val)
	}
	if a.w < 64 && (lowExtract64(a) || lowExtract64(b)) {
		return f.Extract(f.Sub(f.lift64(a), f.lift64(b)), a.w-1, 0)
	}
	m := map[int]*linTerm{}
	var k uint64
	f.decompose(a, 1, m, &k)
	f.decompose(b, ^uint64(0), m, &k)
	return f.buildSum(a.w, m, k)
}
func (f *TF) Neg(a *Term) *Term { return f.Sub(f.Const(a.w, 0), a) }
func (f *TF) Mul(a, b *Term) *Term {
	if a.IsConst() && b.IsConst() {
		return f.Const(a.w, a.val*b.val)
	}
	if a.IsConst() {
		a, b = b, a
	}
	if b.IsConst() {
		if b.val == 0 {
			return b
		}
		if a.w < 64 && lowExtract64(a) {
			return f.Extract(f.Mul(a.args[0], f.Const(64, uint64(b.SVal()))), a.w-1, 0)
		}
		m := map[int]*linTerm{}
		var k uint64
		f.decompose(a, b.val, m, &k)
		return f.buildSum(a.w, m, k)
	}
	if a.id > b.id {
		a, b = b, a
	}
	return f.mk(&Term{op: OpMul, w: a.w, args: []*Term{a, b}})
}

// ---------- other bit-vector ops ----------

func (f *TF) bin(op Op, a, b *Term) *Term {
	return f.mk(&Term{op: op, w: a.w, args: []*Term{a, b}})
}

func (f *TF) UDiv(a, b *Term) *Term {
	if a.IsConst() && b.IsConst() && b.val != 0 {
		return f.Const(a.w, a.val/b.val)
	}
	if b.IsConst() && b.val == 1 {
		return a
	}
	if b.IsConst() && b.val != 0 && b.val&(b.val-1) == 0 {
		return f.LShr(a, f.Const(a.w, uint64(bits.TrailingZeros64(b.val))))
	}
	return f.bin(OpUDiv, a, b)
}
func (f *TF) URem(a, b *Term) *Term {
	if a.IsConst() && b.IsConst() && b.val != 0 {
		return f.Const(a.w, a.val%b.val)
	}
	if b.IsConst() && b.val != 0 && b.val&(b.val-1) == 0 {
		return f.And(a, f.Const(a.w, b.val-1))
	}
	return f.bin(OpURem, a, b)
}
func (f *TF) SDiv(a, b *Term) *Term {
	if a.IsConst() && b.IsConst() && b.val != 0 {
		x, y := a.SVal(), b.SVal()
		if y == -1 {
			return f.Const(a.w, uint64(-x))
		}
		return f.Const(a.w, uint64(x/y))
	}
	if b.IsConst() && b.val == 1 {
		return a
	}
	return f.bin(OpSDiv, a, b)
}
func (f *TF) SRem(a, b *Term) *Term {
	if a.IsConst() && b.IsConst() && b.val != 0 {
		x, y := a.SVal(), b.SVal()
		if y == -1 {
			return f.Const(a.w, 0)
		}
		return f.Const(a.w, uint64(x%y))
	}
	return f.bin(OpSRem, a, b)
}
func (f *TF) And(a, b *Term) *Term {
	if a.IsConst() && b.IsConst() {
		return f.Const(a.w, a.val&b.val)
	}
	if a.IsConst() {
		a, b = b, a
	}
	if b.IsConst() {
		if b.val == 0 {
			return b
		}
		if b.val == mask(a.w) {
			return a
		}
	}
	if a == b {
		return a
	}
	if a.id > b.id && !b.IsConst() {
		a, b = b, a
	}
	return f.bin(OpAnd, a, b)
}

// asField recognises zext(x) * 2^k (k may be 0): the bits of x placed at position k of a wider zero word.
func asField(t *Term) (inner *Term, shift int, ok bool) {
	if t.op == OpZExt {
		return t.args[0], 0, true
	}
	if t.op == OpMulC && t.val != 0 && t.val&(t.val-1) == 0 && t.args[0].op == OpZExt {
		k := bits.TrailingZeros64(t.val)
		in := t.args[0].args[0]
		if k+in.w <= t.w {
			return in, k, true
		}
	}
	return nil, 0, false
}

func (f *TF) Or(a, b *Term) *Term {
	if a.IsConst() && b.IsConst() {
		return f.Const(a.w, a.val|b.val)
	}
	if x, sx, ok1 := asField(a); ok1 {
		if y, sy, ok2 := asField(b); ok2 {
			// two adjacent bit fields: one wider field (byte-wise decoding of integers becomes a concat)
			if sx > sy {
				x, y, sx, sy = y, x, sy, sx
			}
			if sy == sx+x.w {
				return f.Mul(f.ZExt(f.Concat(y, x), a.w), f.Const(a.w, uint64(1)<<uint(sx)))
			}
		}
	}
	if a.IsConst() {
		a, b = b, a
	}
	if b.IsConst() {
		if b.val == 0 {
			return a
		}
		if b.val == mask(a.w) {
			return b
		}
	}
	if a == b {
		return a
	}
	if a.id > b.id && !b.IsConst() {
		a, b = b, a
	}
	return f.bin(OpOr, a, b)
}
func (f *TF) Xor(a, b *Term) *Term {
	if a.IsConst() && b.IsConst() {
		return f.Const(a.w, a.val^b.val)
	}
	if a.IsConst() {
		a, b = b, a
	}
	if b.IsConst() && b.val == 0 {
		return a
	}
	if a == b {
		return f.Const(a.w, 0)
	}
	if a.id > b.id && !b.IsConst() {
		a, b = b, a
	}
	return f.bin(OpXor, a, b)
}
func (f *TF) Not(a *Term) *Term {
	if a.IsConst() {
		return f.Const(a.w, ^a.val)
	}
	if a.op == OpNot {
		return a.args[0]
	}
	return f.mk(&Term{op: OpNot, w: a.w, args: []*Term{a}})
}
func (f *TF) Shl(a, b *Term) *Term {
	if b.IsConst() {
		if b.val >= uint64(a.w) {
			return f.Const(a.w, 0)
		}
		if b.val == 0 {
			return a
		}
		if a.IsConst() {
			return f.Const(a.w, a.val<<b.val)
		}
		// x << c == x * 2^c (keeps linear form)
		return f.Mul(a, f.Const(a.w, uint64(1)<<b.val))
	}
	return f.bin(OpShl, a, b)
}
func (f *TF) LShr(a, b *Term) *Term {
	if b.IsConst() {
		if b.val >= uint64(a.w) {
			return f.Const(a.w, 0)
		}
		if b.val == 0 {
			return a
		}
		if a.IsConst() {
			return f.Const(a.w, a.val>>b.val)
		}
	}
	return f.bin(OpLShr, a, b)
}
func (f *TF) AShr(a, b *Term) *Term {
	if b.IsConst() {
		sh := b.val
		if sh >= uint64(a.w) {
			sh = uint64(a.w - 1)
		}
		if sh == 0 {
			return a
		}
		if a.IsConst() {
			return f.Const(a.w, uint64(a.SVal()>>sh))
		}
		return f.bin(OpAShr, a, f.Const(a.w, sh))
	}
	return f.bin(OpAShr, a, b)
}
func (f *TF) Extract(a *Term, hi, lo int) *Term {
	if lo == 0 && hi == a.w-1 {
		return a
	}
	if a.IsConst() {
		return f.Const(hi-lo+1, a.val>>uint(lo))
	}
	if a.op == OpZExt || a.op == OpSExt {
		in := a.args[0]
		if hi < in.w {
			return f.Extract(in, hi, lo)
		}
		if a.op == OpZExt && lo >= in.w {
			return f.Const(hi-lo+1, 0)
		}
	}
	if a.op == OpExtract {
		l0 := a.extra & 0xff
		return f.Extract(a.args[0], hi+l0, lo+l0)
	}
	if a.op == OpConcat {
		lw := a.args[1].w
		if hi < lw {
			return f.Extract(a.args[1], hi, lo)
		}
		if lo >= lw {
			return f.Extract(a.args[0], hi-lw, lo-lw)
		}
	}
	if a.op == OpIte && a.args[1].IsConst() && a.args[2].IsConst() {
		return f.Ite(a.args[0], f.Extract(a.args[1], hi, lo), f.Extract(a.args[2], hi, lo))
	}
	if a.op == OpLShr && a.args[1].IsConst() {
		// bits of (x >> k): bits of x, k higher
		k := int(a.args[1].val)
		if hi+k < a.w {
			return f.Extract(a.args[0], hi+k, lo+k)
		}
	}
	if a.op == OpMulC && a.val&(a.val-1) == 0 && a.val != 0 {
		// bits of (x * 2^k): bits of x, k lower
		k := bits.TrailingZeros64(a.val)
		if lo >= k {
			return f.Extract(a.args[0], hi-k, lo-k)
		}
	}
	return f.mk(&Term{op: OpExtract, w: hi - lo + 1, args: []*Term{a}, extra: hi<<8 | lo})
}
func (f *TF) ZExt(a *Term, w int) *Term {
	if w == a.w {
		return a
	}
	if w < a.w {
		return f.Extract(a, w-1, 0)
	}
	if a.IsConst() {
		return f.Const(w, a.val)
	}
	if a.op == OpZExt {
		return f.ZExt(a.args[0], w)
	}
	if a.op == OpIte && a.args[1].IsConst() && a.args[2].IsConst() {
		return f.Ite(a.args[0], f.ZExt(a.args[1], w), f.ZExt(a.args[2], w))
	}
	return f.mk(&Term{op: OpZExt, w: w, args: []*Term{a}})
}
func (f *TF) SExt(a *Term, w int) *Term {
	if w == a.w {
		return a
	}
	if w < a.w {
		return f.Extract(a, w-1, 0)
	}
	if a.IsConst() {
		return f.Const(w, uint64(a.SVal()))
	}
	if a.op == OpZExt {
		return f.ZExt(a.args[0], w)
	}
	if a.op == OpIte && a.args[1].IsConst() && a.args[2].IsConst() {
		return f.Ite(a.args[0], f.SExt(a.args[1], w), f.SExt(a.args[2], w))
	}
	return f.mk(&Term{op: OpSExt, w: w, args: []*Term{a}})
}
func (f *TF) Concat(hi, lo *Term) *Term {
	if hi.IsConst() && lo.IsConst() && hi.w+lo.w <= 64 {
		return f.Const(hi.w+lo.w, hi.val<<uint(lo.w)|lo.val)
	}
	if hi.IsConst() && hi.val == 0 {
		return f.ZExt(lo, hi.w+lo.w)
	}
	if hi.op == OpExtract && lo.op == OpExtract && hi.args[0] == lo.args[0] && hi.extra&0xff == (lo.extra>>8)+1 {
		// adjacent pieces of the same term
		return f.Extract(hi.args[0], hi.extra>>8, lo.extra&0xff)
	}
	if lo.op == OpConcat && hi.op == OpExtract && lo.args[0].op == OpExtract && hi.args[0] == lo.args[0].args[0] &&
		hi.extra&0xff == (lo.args[0].extra>>8)+1 {
		return f.Concat(f.Extract(hi.args[0], hi.extra>>8, lo.args[0].extra&0xff), lo.args[1])
	}
	return f.mk(&Term{op: OpConcat, w: hi.w + lo.w, args: []*Term{hi, lo}})
}

func (f *TF) Ite(c, a, b *Term) *Term {
	if c.IsTrue() {
		return a
	}
	if c.IsFalse() {
		return b
	}
	if a == b {
		return a
	}
	if a.w == 0 { // boolean ite
		if a.IsTrue() && b.IsFalse() {
			return c
		}
		if a.IsFalse() && b.IsTrue() {
			return f.BNot(c)
		}
		return f.BOr(f.BAnd(c, a), f.BAnd(f.BNot(c), b))
	}
	if c.op == OpBNot {
		return f.Ite(c.args[0], b, a)
	}
	// ite(c, x, ite(c, y, z)) = ite(c, x, z)
	if b.op == OpIte && b.args[0] == c {
		return f.Ite(c, a, b.args[2])
	}
	if a.op == OpIte && a.args[0] == c {
		return f.Ite(c, a.args[1], b)
	}
	return f.mk(&Term{op: OpIte, w: a.w, args: []*Term{c, a, b}})
}

// ---------- predicates ----------

func (f *TF) Eq(a, b *Term) *Term {
	if a == b {
		return f.True
	}
	if a.w != b.w {
		panic(fmt.Sprintf("Eq width mismatch %d %d", a.w, b.w))
	}
	if a.w == 0 {
		if a.IsConst() {
			a, b = b, a
		}
		if b.IsTrue() {
			return a
		}
		if b.IsFalse() {
			return f.BNot(a)
		}
		if a.id > b.id {
			a, b = b, a
		}
		return f.mk(&Term{op: OpEq, args: []*Term{a, b}})
	}
	if a.IsConst() && b.IsConst() {
		return f.Bool(a.val == b.val)
	}
	if a.IsConst() {
		a, b = b, a
	}
	// ite(c, k1, k2) == k  with constants
	if b.IsConst() && a.op == OpIte && (a.args[1].IsConst() || a.args[2].IsConst()) {
		return f.Ite(a.args[0], f.Eq(a.args[1], b), f.Eq(a.args[2], b))
	}
	if b.IsConst() && a.op == OpZExt {
		in := a.args[0]
		if b.val > mask(in.w) {
			return f.False
		}
		return f.Eq(in, f.Const(in.w, b.val))
	}
	// linear: move everything to one side when both are sums sharing terms
	if a.op == OpAdd || b.op == OpAdd || a.op == OpMulC || b.op == OpMulC {
		d := f.Sub(a, b)
		if d.IsConst() {
			return f.Bool(d.val == 0)
		}
		// x + k == 0  ->  x == -k  (keep canonical small form)
		if d.op == OpAdd && len(d.args) == 2 && d.args[1].IsConst() && d.args[0].op != OpMulC {
			a, b = d.args[0], f.Const(d.w, -d.args[1].val)
		}
	}
	if !b.IsConst() && a.id > b.id {
		a, b = b, a
	}
	return f.mk(&Term{op: OpEq, args: []*Term{a, b}})
}

func (f *TF) cmp(op Op, a, b *Term) *Term {
	if a.w != b.w {
		panic(fmt.Sprintf("cmp width mismatch %d %d", a.w, b.w))
	}
	if a.IsConst() && b.IsConst() {
		switch op {
		case OpUlt:
			return f.Bool(a.val < b.val)
		case OpUle:
			return f.Bool(a.val <= b.val)
		case OpSlt:
			return f.Bool(a.SVal() < b.SVal())
		case OpSle:
			return f.Bool(a.SVal() <= b.SVal())
		}
	}
	if a == b {
		return f.Bool(op == OpUle || op == OpSle)
	}
	if op == OpUlt && b.IsConst() && b.val == 0 {
		return f.False
	}
	if op == OpUle && a.IsConst() && a.val == 0 {
		return f.True
	}
	// zext(x) <u const
	if (op == OpUlt || op == OpUle) && a.op == OpZExt && b.IsConst() && b.val > mask(a.args[0].w) {
		return f.True
	}
	if (op == OpSlt || op == OpSle) && a.op == OpZExt && b.IsConst() && b.SVal() > int64(mask(a.args[0].w)) {
		return f.True
	}
	if (op == OpSlt) && b.op == OpZExt && a.IsConst() && a.SVal() < 0 {
		return f.True
	}
	if (op == OpSle) && b.op == OpZExt && a.IsConst() && a.SVal() <= 0 {
		return f.True
	}
	if (op == OpSlt) && a.op == OpZExt && a.args[0].w < a.w && b.IsConst() && b.SVal() <= 0 {
		return f.False
	}
	return f.mk(&Term{op: op, args: []*Term{a, b}})
}
func (f *TF) Ult(a, b *Term) *Term { return f.cmp(OpUlt, a, b) }
func (f *TF) Ule(a, b *Term) *Term { return f.cmp(OpUle, a, b) }
func (f *TF) Slt(a, b *Term) *Term { return f.cmp(OpSlt, a, b) }
func (f *TF) Sle(a, b *Term) *Term { return f.cmp(OpSle, a, b) }

func (f *TF) BNot(a *Term) *Term {
	switch a.op {
	case OpTrue:
		return f.False
	case OpFalse:
		return f.True
	case OpBNot:
		return a.args[0]
	}
	return f.mk(&Term{op: OpBNot, args: []*Term{a}})
}

func (f *TF) BAnd(xs ...*Term) *Term {
	var out []*Term
	seen := map[int]bool{}
	var add func(t *Term) bool
	add = func(t *Term) bool {
		if t.IsFalse() {
			return false
		}
		if t.IsTrue() {
			return true
		}
		if t.op == OpBAnd {
			for _, a := range t.args {
				if !add(a) {
					return false
				}
			}
			return true
		}
		if seen[t.id] {
			return true
		}
		seen[t.id] = true
		out = append(out, t)
		return true
	}
	for _, x := range xs {
		if !add(x) {
			return f.False
		}
	}
	for _, t := range out {
		if t.op == OpBNot && seen[t.args[0].id] {
			return f.False
		}
	}
	if len(out) == 0 {
		return f.True
	}
	if len(out) == 1 {
		return out[0]
	}
	sort.Slice(out, func(i, j int) bool { return out[i].id < out[j].id })
	return f.mk(&Term{op: OpBAnd, args: out})
}

func (f *TF) BOr(xs ...*Term) *Term {
	var out []*Term
	seen := map[int]bool{}
	var add func(t *Term) bool
	add = func(t *Term) bool {
		if t.IsTrue() {
			return false
		}
		if t.IsFalse() {
			return true
		}
		if t.op == OpBOr {
			for _, a := range t.args {
				if !add(a) {
					return false
				}
			}
			return true
		}
		if seen[t.id] {
			return true
		}
		seen[t.id] = true
		out = append(out, t)
		return true
	}
	for _, x := range xs {
		if !add(x) {
			return f.True
		}
	}
	for _, t := range out {
		if t.op == OpBNot && seen[t.args[0].id] {
			return f.True
		}
	}
	if len(out) == 0 {
		return f.False
	}
	if len(out) == 1 {
		return out[0]
	}
	sort.Slice(out, func(i, j int) bool { return out[i].id < out[j].id })
	return f.mk(&Term{op: OpBOr, args: out})
}
func (f *TF) Implies(a, b *Term) *Term { return f.BOr(f.BNot(a), b) }

// ---------- free variables ----------

func (t *Term) Vars() map[int]struct{} {
	if t.vars != nil {
		return t.vars
	}
	m := map[int]struct{}{}
	if t.op == OpVar {
		m[t.id] = struct{}{}
	}
	if t.op == OpApply {
		// uninterpreted functions connect constraints through congruence: one pseudo symbol per name
		h := 0
		for i := 0; i < len(t.name); i++ {
			h = h*131 + int(t.name[i])
		}
		m[-(h&0x3fffffff)-1] = struct{}{}
	}
	for _, a := range t.args {
		for k := range a.Vars() {
			m[k] = struct{}{}
		}
	}
	t.vars = m
	return m
}
func (t *Term) HasVar(v *Term) bool { _, ok := t.Vars()[v.id]; return ok }

// Subst replaces variable v by r.
func (f *TF) Subst(t, v, r *Term, memo map[int]*Term) *Term {
	if !t.HasVar(v) {
		return t
	}
	if t == v {
		return r
	}
	if x, ok := memo[t.id]; ok {
		return x
	}
	args := make([]*Term, len(t.args))
	for i, a := range t.args {
		args[i] = f.Subst(a, v, r, memo)
	}
	res := f.Rebuild(t, args)
	memo[t.id] = res
	return res
}

// Rebuild re-applies the smart constructor of t's operator to new args.
func (f *TF) Rebuild(t *Term, a []*Term) *Term {
	switch t.op {
	case OpApply:
		return f.Apply(t.name, t.w, a...)
	case OpAdd:
		r := a[0]
		for _, x := range a[1:] {
			r = f.Add(r, x)
		}
		return r
	case OpMulC:
		return f.Mul(a[0], f.Const(t.w, t.val))
	case OpMul:
		return f.Mul(a[0], a[1])
	case OpUDiv:
		return f.UDiv(a[0], a[1])
	case OpURem:
		return f.URem(a[0], a[1])
	case OpSDiv:
		return f.SDiv(a[0], a[1])
	case OpSRem:
		return f.SRem(a[0], a[1])
	case OpAnd:
		return f.And(a[0], a[1])
	case OpOr:
		return f.Or(a[0], a[1])
	case OpXor:
		return f.Xor(a[0], a[1])
	case OpNot:
		return f.Not(a[0])
	case OpShl:
		return f.Shl(a[0], a[1])
	case OpLShr:
		return f.LShr(a[0], a[1])
	case OpAShr:
		return f.AShr(a[0], a[1])
	case OpConcat:
		return f.Concat(a[0], a[1])
	case OpExtract:
		return f.Extract(a[0], t.extra>>8, t.extra&0xff)
	case OpZExt:
		return f.ZExt(a[0], t.w)
	case OpSExt:
		return f.SExt(a[0], t.w)
	case OpIte:
		return f.Ite(a[0], a[1], a[2])
	case OpEq:
		return f.Eq(a[0], a[1])
	case OpUlt:
		return f.Ult(a[0], a[1])
	case OpUle:
		return f.Ule(a[0], a[1])
	case OpSlt:
		return f.Slt(a[0], a[1])
	case OpSle:
		return f.Sle(a[0], a[1])
	case OpBAnd:
		return f.BAnd(a...)
	case OpBOr:
		return f.BOr(a...)
	case OpBNot:
		return f.BNot(a[0])
	}
	panic("Rebuild: unexpected op")
}

// ---------- SMT-LIB printing ----------

func sortStr(w int) string {
	if w == 0 {
		return "Bool"
	}
	return fmt.Sprintf("(_ BitVec %d)", w)
}

func smtName(s string) string {
	return "|" + strings.ReplaceAll(strings.ReplaceAll(s, "|", "_"), "\\", "_") + "|"
}

func constStr(w int, v uint64) string {
	if w%4 == 0 {
		return fmt.Sprintf("#x%0*x", w/4, v)
	}
	return fmt.Sprintf("#b%0*b", w, v)
}

// ref returns how a term is referenced from a parent expression.
func (t *Term) ref() string {
	switch t.op {
	case OpConst:
		return constStr(t.w, t.val)
	case OpTrue:
		return "true"
	case OpFalse:
		return "false"
	case OpVar:
		return smtName(t.name)
	}
	return fmt.Sprintf("t%d", t.id)
}

// body returns the defining expression of a non-leaf term.
func (t *Term) body() string {
	a := func(i int) string { return t.args[i].ref() }
	nary := func(op string) string {
		var sb strings.Builder
		sb.WriteString("(" + op)
		for _, x := range t.args {
			sb.WriteString(" " + x.ref())
		}
		sb.WriteString(")")
		return sb.String()
	}
	switch t.op {
	case OpApply:
		if len(t.args) == 0 {
			return smtName(t.name)
		}
		return nary(smtName(t.name))
	case OpAdd:
		return nary("bvadd")
	case OpMulC:
		if t.w > 1 && t.val&(uint64(1)<<uint(t.w-1)) != 0 && t.val != uint64(1)<<uint(t.w-1) {
			// negative coefficient: print as the negation of the positive multiple, so that +c*x and -c*x share one multiplier
			pos := (^t.val + 1) & mask(t.w)
			if pos == 1 {
				return fmt.Sprintf("(bvneg %s)", a(0))
			}
			return fmt.Sprintf("(bvneg (bvmul %s %s))", a(0), constStr(t.w, pos))
		}
		return fmt.Sprintf("(bvmul %s %s)", a(0), constStr(t.w, t.val))
	case OpMul:
		return nary("bvmul")
	case OpUDiv:
		return nary("bvudiv")
	case OpURem:
		return nary("bvurem")
	case OpSDiv:
		return nary("bvsdiv")
	case OpSRem:
		return nary("bvsrem")
	case OpAnd:
		return nary("bvand")
	case OpOr:
		return nary("bvor")
	case OpXor:
		return nary("bvxor")
	case OpNot:
		return nary("bvnot")
	case OpShl:
		return nary("bvshl")
	case OpLShr:
		return nary("bvlshr")
	case OpAShr:
		return nary("bvashr")
	case OpConcat:
		return nary("concat")
	case OpExtract:
		return fmt.Sprintf("((_ extract %d %d) %s)", t.extra>>8, t.extra&0xff, a(0))
	case OpZExt:
		return fmt.Sprintf("((_ zero_extend %d) %s)", t.w-t.args[0].w, a(0))
	case OpSExt:
		return fmt.Sprintf("((_ sign_extend %d) %s)", t.w-t.args[0].w, a(0))
	case OpIte:
		return nary("ite")
	case OpEq:
		return nary("=")
	case OpUlt:
		return nary("bvult")
	case OpUle:
		return nary("bvule")
	case OpSlt:
		return nary("bvslt")
	case OpSle:
		return nary("bvsle")
	case OpBAnd:
		return nary("and")
	case OpBOr:
		return nary("or")
	case OpBNot:
		return nary("not")
	}
	panic(fmt.Sprintf("body: op %d", t.op))
}

func (t *Term) isLeaf() bool {
	return t.op == OpConst || t.op == OpTrue || t.op == OpFalse || t.op == OpVar
}

// collect returns all sub-terms reachable from roots that are not in 'done',
// in dependency order, marking them done.
func collect(roots []*Term, done map[int]bool) []*Term {
	var out []*Term
	var rec func(t *Term)
	rec = func(t *Term) {
		if done[t.id] {
			return
		}
		done[t.id] = true
		for _, a := range t.args {
			rec(a)
		}
		out = append(out, t)
	}
	for _, r := range roots {
		rec(r)
	}
	return out
}

// declText produces declarations/definitions for the given (ordered) terms.
// declared tracks uninterpreted function names already declared.
func declText(ts []*Term, declared map[string]bool) string {
	var sb strings.Builder
	for _, t := range ts {
		switch t.op {
		case OpConst, OpTrue, OpFalse:
		case OpVar:
			fmt.Fprintf(&sb, "(declare-const %s %s)\n", smtName(t.name), sortStr(t.w))
		case OpApply:
			if !declared[t.name] {
				declared[t.name] = true
				fmt.Fprintf(&sb, "(declare-fun %s (", smtName(t.name))
				for i, a := range t.args {
					if i > 0 {
						sb.WriteString(" ")
					}
					sb.WriteString(sortStr(a.w))
				}
				fmt.Fprintf(&sb, ") %s)\n", sortStr(t.w))
			}
			fmt.Fprintf(&sb, "(define-fun t%d () %s %s)\n", t.id, sortStr(t.w), t.body())
		default:
			fmt.Fprintf(&sb, "(define-fun t%d () %s %s)\n", t.id, sortStr(t.w), t.body())
		}
	}
	return sb.String()
}

func (t *Term) String() string {
	if t.isLeaf() {
		return t.ref()
	}
	var sb strings.Builder
	var rec func(t *Term, d int)
	rec = func(t *Term, d int) {
		if t.isLeaf() {
			sb.WriteString(t.ref())
			return
		}
		if d > 6 {
			fmt.Fprintf(&sb, "t%d", t.id)
			return
		}
		switch t.op {
		case OpExtract:
			fmt.Fprintf(&sb, "(extract[%d:%d] ", t.extra>>8, t.extra&0xff)
		case OpMulC:
			fmt.Fprintf(&sb, "(mulc %d ", t.val)
		case OpApply:
			fmt.Fprintf(&sb, "(%s ", t.name)
		default:
			b := t.body()
			i := strings.IndexAny(b, " )")
			sb.WriteString(b[:i] + " ")
		}
		for i, a := range t.args {
			if i > 0 {
				sb.WriteString(" ")
			}
			rec(a, d+1)
		}
		sb.WriteString(")")
	}
	rec(t, 0)
	return sb.String()
}

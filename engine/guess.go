package main

// Cheap satisfiability witness search: before a feasibility query goes to a solver, a few dozen
// candidate assignments (interval bounds, small and boundary values, pseudo-random values) are
// evaluated with the term evaluator. A satisfying assignment is a proof of satisfiability; most
// feasibility queries of a path exploration are satisfiable and are answered this way.
// Uninterpreted functions are interpreted by a fixed hash function (a legitimate interpretation).

import (
	"sort"
)

type guessCtx struct {
	vals map[int]uint64 // var id -> value
	seed uint64
	memo map[int]uint64
}

func mix64(x uint64) uint64 {
	x ^= x >> 33
	x *= 0xff51afd7ed558ccd
	x ^= x >> 33
	x *= 0xc4ceb9fe1a85ec53
	x ^= x >> 33
	return x
}

func (g *guessCtx) eval(t *Term) uint64 {
	if v, ok := g.memo[t.id]; ok {
		return v
	}
	var r uint64
	switch t.op {
	case OpVar:
		r = g.vals[t.id]
	case OpApply:
		h := g.seed
		for i := 0; i < len(t.name); i++ {
			h = mix64(h ^ uint64(t.name[i]))
		}
		for _, a := range t.args {
			h = mix64(h ^ g.eval(a))
		}
		if g.seed == 0 {
			h = 0 // first rounds: the constant-zero function
		}
		r = h
	default:
		// reuse the model evaluator on a shim context
		c := &evalCtx{m: nil, memo: g.memo}
		r = evalWith(t, c, g)
	}
	if t.w > 0 {
		r &= mask(t.w)
	}
	g.memo[t.id] = r
	return r
}

// evalWith evaluates a non-leaf term, delegating leaves (vars, applies) to g.
func evalWith(t *Term, c *evalCtx, g *guessCtx) uint64 {
	// evaluate children first through g (fills the shared memo), then compute this node with evalTerm's rules
	for _, a := range t.args {
		g.eval(a)
	}
	return evalNode(t, c)
}

func (ex *Exec) guessSat(pc []*Term, c *Term) bool {
	if ex.eng.noGuess {
		return false
	}
	// collect variables
	seen := map[int]bool{}
	var vars []*Term
	var walk func(t *Term)
	walk = func(t *Term) {
		if seen[t.id] {
			return
		}
		seen[t.id] = true
		if t.op == OpVar {
			vars = append(vars, t)
		}
		for _, a := range t.args {
			walk(a)
		}
	}
	for _, t := range pc {
		walk(t)
	}
	walk(c)
	if len(vars) > 64 {
		return false
	}
	sort.Slice(vars, func(i, j int) bool { return vars[i].name < vars[j].name })
	type cand struct{ lo, hi uint64 }
	cands := make([][]uint64, len(vars))
	for i, v := range vars {
		var cs []uint64
		if v.w == 0 {
			cs = []uint64{0, 1}
		} else {
			r := ex.rangeOf(v)
			full := fullRange(v.w)
			lo, hi := uint64(r.lo), uint64(r.hi)
			cs = append(cs, lo, hi)
			if r != full {
				cs = append(cs, lo+1, hi-1, uint64(r.lo/2+r.hi/2))
			}
			cs = append(cs, 0, 1, 2, 2047, 2048, 2049, 4096, mask(v.w))
			// keep candidates inside the known range
			var in []uint64
			for _, x := range cs {
				sx := v.SValOf(x & mask(v.w))
				if sx >= r.lo && sx <= r.hi {
					in = append(in, x&mask(v.w))
				}
			}
			cs = in
			if len(cs) == 0 {
				cs = []uint64{lo}
			}
		}
		cands[i] = cs
	}
	h := c.h1
	for _, t := range pc {
		h = mix64(h ^ t.h1)
	}
	try := func(pick func(i int) uint64, seed uint64) bool {
		g := &guessCtx{vals: map[int]uint64{}, seed: seed, memo: map[int]uint64{}}
		for i, v := range vars {
			g.vals[v.id] = pick(i)
		}
		if g.eval(c) == 0 {
			return false
		}
		for _, t := range pc {
			if g.eval(t) == 0 {
				return false
			}
		}
		return true
	}
	// structured rounds: all first candidates, all second, ...
	for k := 0; k < 5; k++ {
		kk := k
		if try(func(i int) uint64 { return cands[i][kk%len(cands[i])] }, 0) {
			return true
		}
	}
	// pseudo-random rounds
	rounds := 48
	for r := 0; r < rounds; r++ {
		s := mix64(h + uint64(r)*0x9E3779B97F4A7C15)
		seed := uint64(0)
		if r%2 == 1 {
			seed = s | 1
		}
		if try(func(i int) uint64 {
			s = mix64(s + uint64(i))
			cs := cands[i]
			if vars[i].w > 0 && s%4 == 0 {
				// a random value inside the range
				rr := ex.rangeOf(vars[i])
				span := uint64(rr.hi-rr.lo) + 1
				if span == 0 {
					return s & mask(vars[i].w)
				}
				return (uint64(rr.lo) + (s>>8)%span) & mask(vars[i].w)
			}
			return cs[(s>>3)%uint64(len(cs))]
		}, seed) {
			return true
		}
	}
	return false
}

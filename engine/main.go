package main

import (
	"fmt"
	"os"
	"sort"
	"strconv"
	"strings"
	"sync/atomic"
	"time"
)

func usage() {
	fmt.Fprintln(os.Stderr, "usage: symgo check <PROP> [quick|thorough] [-v] [-only <harness substring>] [-j N]\n       symgo replay <file>")
	os.Exit(2)
}

func main() {
	if len(os.Args) < 2 {
		usage()
	}
	switch os.Args[1] {
	case "check":
		os.Exit(cmdCheck(os.Args[2:]))
	case "replay":
		os.Exit(cmdReplay(os.Args[2:]))
	default:
		usage()
	}
}

func cmdCheck(args []string) int {
	if len(args) < 1 {
		usage()
	}
	e := newEngine()
	prop := args[0]
	only := ""
	for i := 1; i < len(args); i++ {
		switch args[i] {
		case "quick", "thorough":
			e.tier = args[i]
		case "-v":
			e.verbose = true
		case "-only":
			i++
			only = args[i]
		case "-j":
			i++
			e.workers, _ = strconv.Atoi(args[i])
		case "-noaccel":
			e.noAccel = true
		case "-pin":
			i++
			e.pinChoices = map[string]uint64{}
			for _, kv := range strings.Split(args[i], ",") {
				if j := strings.Index(kv, "="); j > 0 {
					v, _ := strconv.ParseUint(kv[j+1:], 10, 64)
					e.pinChoices[kv[:j]] = v
				}
			}
		case "-all":
			e.earlyStop = false
		case "-noguess":
			e.noGuess = true
		case "-noslice":
			e.noSlice = true
		case "-noifconv":
			e.noIfConv = true
		}
	}
	if t := os.Getenv("VERIF_TIER"); t == "quick" || t == "thorough" {
		if len(args) < 2 || (args[1] != "quick" && args[1] != "thorough") {
			e.tier = t
		}
	}
	if s := os.Getenv("VERIF_SEED"); s != "" {
		e.seed, _ = strconv.ParseInt(s, 10, 64)
	}
	if e.tier == "thorough" {
		e.samplesPerHarness = 3
		e.crossCheck = os.Getenv("VERIF_NOCROSS") == ""
	}
	t0 := time.Now()
	if err := e.load(); err != nil {
		fmt.Fprintln(os.Stderr, "load failed:", err)
		return 3
	}
	loadT := time.Since(t0)
	if os.Getenv("VERIF_DEBUG") != "" {
		e.debugDump()
	}
	hs := e.harnessFuncs(prop)
	if only != "" {
		var f = hs[:0]
		for _, h := range hs {
			if strings.Contains(h.Name(), only) {
				f = append(f, h)
			}
		}
		hs = f
	}
	if len(hs) == 0 {
		fmt.Fprintln(os.Stderr, "no harness functions Verif"+prop+"_* found")
		return 3
	}
	e.prop = prop
	e.knownList = e.loadKnown()
	fmt.Printf("symgo: property %s tier %s: %d harnesses, load+ssa %.1fs, %d workers\n", prop, e.tier, len(hs), loadT.Seconds(), e.workers)
	e.runHarnesses(hs)

	// vacuity: every statically visible Assert/Reachable label and each harness end must be reached
	var vacuous []string
	for _, h := range hs {
		if !e.reached["end:"+h.Name()] {
			vacuous = append(vacuous, h.Name()+": no path reaches the end of the harness")
		}
		for l := range e.staticLabels(h) {
			if !e.reached[h.Name()+"|"+l] {
				vacuous = append(vacuous, h.Name()+": never reached "+l)
			}
		}
	}
	sort.Strings(vacuous)

	if atomic.LoadInt32(&e.stop) == 0 && os.Getenv("VERIF_NOVALIDATE") == "" {
		e.validateSamples(prop)
		for _, m := range e.tracesMismatch {
			if strings.Contains(m, "the native run says \"timeout\"") {
				// the native build/run did not finish in its time limit (cold build cache, busy machine): that sample is
				// simply not validated - it says nothing about the translator and must not fail the check
				fmt.Fprintln(os.Stderr, "symgo: translator validation skipped (native run timed out): "+m)
				continue
			}
			e.inconcl["translator validation: "+m]++
		}
	}
	known := e.loadKnown()
	rc := 0
	nviol := 0
	var sigs []string
	for s := range e.violations {
		sigs = append(sigs, s)
	}
	sort.Strings(sigs)
	var knownHit []string
	for _, s := range sigs {
		v := e.violations[s]
		matched := false
		for _, k := range known {
			if k.Status == "open" && k.Property == prop && k.Signature == s {
				fmt.Printf("KNOWN-FINDING: property=%s %s [%s]\n", prop, k.What, s)
				knownHit = append(knownHit, s)
				matched = true
			}
		}
		if matched {
			continue
		}
		nviol++
		var path string
		var confirmed bool
		if c, done := e.confirmed[s]; done {
			path, confirmed = c.path, c.ok
		} else {
			path, confirmed = e.writeReplay(prop, v)
		}
		if confirmed {
			fmt.Printf("VIOLATION property=%s replay=%s\n", prop, path)
			fmt.Printf("  harness=%s kind=%s at=%s %s\n", v.Harness, v.Kind, v.Label, v.Detail)
			rc = 1
		} else {
			fmt.Printf("INCONCLUSIVE: counterexample for %s did not reproduce natively (replay file %s)\n", s, path)
			e.inconcl["counterexample not reproduced natively: "+s]++
		}
	}
	extra := map[string]interface{}{"vacuity_failures": vacuous, "known_findings_hit": knownHit, "load_ssa_s": loadT.Seconds()}
	if err := e.writeEvidence(prop, hs, time.Since(t0), nviol, extra); err != nil {
		fmt.Fprintln(os.Stderr, "evidence:", err)
		return 3
	}
	st := e.stats
	fmt.Printf("symgo: %s %s: paths done=%d cut=%d, decisions=%d, obligations sites=%d, queries feas=%d assert=%d (sat %d unsat %d unknown %d, cache %d, witness %d), solver %.1fs, wall %.1fs\n",
		prop, e.tier, e.pathsDone, e.pathsEnded, e.decisions, len(e.obligations), st.Feas, st.Assertion, st.SatN, st.UnsatN, st.UnknownN, st.CacheHits, st.WitnessHits,
		st.SolverTime.Seconds(), time.Since(t0).Seconds())
	if rc == 1 {
		return 1
	}
	if len(e.inconcl) > 0 || len(vacuous) > 0 {
		var ks []string
		for k, n := range e.inconcl {
			ks = append(ks, fmt.Sprintf("%s (x%d)", k, n))
		}
		sort.Strings(ks)
		for _, k := range ks {
			fmt.Println("INCONCLUSIVE:", k)
		}
		for _, v := range vacuous {
			fmt.Println("VACUOUS:", v)
		}
		return 3
	}
	fmt.Printf("symgo: property %s held on everything explored\n", prop)
	return 0
}

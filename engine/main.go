package main

import (
	"fmt"

	"golang.org/x/tools/go/packages"
	"golang.org/x/tools/go/ssa"
	"golang.org/x/tools/go/ssa/ssautil"
)

var _ = packages.Load
var _ ssa.BuilderMode
var _ = ssautil.AllPackages

func main() { fmt.Println("ok") }

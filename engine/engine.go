package main

// Loading of /repo with the harness overlay, path scheduling over workers,
// verdict collection, evidence.

import (
	"encoding/json"
	"fmt"
	"go/types"
	"os"
	"os/exec"
	"path/filepath"
	"runtime"
	"runtime/debug"
	"sort"
	"strings"
	"sync"
	"sync/atomic"
	"time"

	"golang.org/x/tools/go/packages"
	"golang.org/x/tools/go/ssa"
	"golang.org/x/tools/go/ssa/ssautil"
)

type Engine struct {
	repoDir           string
	verifDir          string
	gomodcache        string
	goroot            string
	modPath           string
	tier              string
	seed              int64
	prog              *ssa.Program
	pkgs              []*packages.Package
	ssaPkgs           []*ssa.Package
	sizes             types.Sizes
	stats             *Stats
	maxVisits         int
	maxSteps          int
	unwind            int
	forkMinMax        bool
	crossCheck        bool
	workers           int
	overlay           map[string][]byte
	verbose           bool
	noAccel           bool
	noIfConv          bool
	noSlice           bool
	noGuess           bool
	pinChoices        map[string]uint64
	stop              int32
	samplesPerHarness int
	okSamples         map[string][]*Violation
	tracesValidated   int
	tracesMismatch    []string
	earlyStop         bool
	prop              string
	confirmed         map[string]confirmation
	knownList         []knownFinding
	ifConvInts        bool
	concreteCopies    bool

	mu          sync.Mutex
	bounds      map[string]int64
	obligations map[string]*oblStat
	inconcl     map[string]int
	stubCache   map[string]*ssa.Function
	choices     map[string]map[int]int
	funcsRun    map[string]int
	intrUsed    map[string]bool
	accelLoops  map[string]bool
	reached     map[string]bool
	violations  map[string]*Violation
	pathsDone   int
	pathsEnded  int
	decisions   int
	steps       int64
	samples     []string
}

type confirmation struct {
	path string
	ok   bool
}

func (e *Engine) isKnown(v *Violation) bool {
	for _, k := range e.knownList {
		if k.Status == "open" && k.Property == e.prop && k.Signature == v.Sig() {
			return true
		}
	}
	return false
}

type oblStat struct {
	Unsat, Sat, Unknown int
	Who                 map[string]int
}

func (e *Engine) isRepoPkg(path string) bool {
	return path == e.modPath || strings.HasPrefix(path, e.modPath+"/")
}

func (e *Engine) noteBound(name string, v int64) {
	e.mu.Lock()
	e.bounds[name] = v
	e.mu.Unlock()
}

func (e *Engine) noteChoice(label string, c int, ex *Exec) {
	ex.choiceVals[label] = uint64(c)
	e.mu.Lock()
	if e.choices[label] == nil {
		e.choices[label] = map[int]int{}
	}
	e.choices[label][c]++
	e.mu.Unlock()
}

func (e *Engine) noteObligation(sig string, r Res, who string) {
	e.mu.Lock()
	o := e.obligations[sig]
	if o == nil {
		o = &oblStat{Who: map[string]int{}}
		e.obligations[sig] = o
	}
	switch r {
	case Unsat:
		o.Unsat++
	case Sat:
		o.Sat++
	default:
		o.Unknown++
	}
	o.Who[who]++
	e.mu.Unlock()
}

func (e *Engine) inconclusive(msg string) {
	e.mu.Lock()
	e.inconcl[msg]++
	e.mu.Unlock()
}

func (e *Engine) namedType(pkgPath, name string) types.Type {
	p := e.prog.ImportedPackage(pkgPath)
	if p == nil {
		panic(unsupported{"package not loaded: " + pkgPath})
	}
	o := p.Pkg.Scope().Lookup(name)
	if o == nil {
		panic(unsupported{"type not found: " + pkgPath + "." + name})
	}
	return o.Type()
}

func (e *Engine) pkgFunc(pkgPath, name string) *ssa.Function {
	p := e.prog.ImportedPackage(pkgPath)
	if p == nil {
		panic(unsupported{"package not loaded: " + pkgPath})
	}
	f := p.Func(name)
	if f == nil {
		panic(unsupported{"function not found: " + pkgPath + "." + name})
	}
	return f
}

// stubFor finds a harness-provided replacement verifStub_<pkg>_<Func> in the package of the running harness.
func (e *Engine) stubFor(ex *Exec, fn *ssa.Function) *ssa.Function {
	if ex.harnessPkg == nil {
		return nil
	}
	var name string
	if fn.Signature.Recv() != nil {
		n := recvNamed(fn.Signature.Recv().Type())
		if n == nil || n.Obj().Pkg() == nil {
			return nil
		}
		name = "verifStub_" + n.Obj().Pkg().Name() + "_" + n.Obj().Name() + "_" + baseFuncName(fn.Name())
	} else {
		if fn.Pkg == nil {
			return nil
		}
		name = "verifStub_" + fn.Pkg.Pkg.Name() + "_" + baseFuncName(fn.Name())
	}
	if os.Getenv("VERIF_DEBUG_STUB") != "" && strings.Contains(name, os.Getenv("VERIF_DEBUG_STUB")) {
		fmt.Fprintln(os.Stderr, "stubFor:", fn.String(), "->", name, "found:", ex.harnessPkg.Func(name) != nil)
	}
	key := ex.harnessPkg.Pkg.Path() + "|" + name
	e.mu.Lock()
	st, ok := e.stubCache[key]
	e.mu.Unlock()
	if ok {
		return st
	}
	st = ex.harnessPkg.Func(name)
	e.mu.Lock()
	e.stubCache[key] = st
	e.mu.Unlock()
	return st
}

func goEnv(key string) string {
	out, err := exec.Command("go", "env", key).Output()
	if err != nil {
		return ""
	}
	return strings.TrimSpace(string(out))
}

func (e *Engine) readOverlay() error {
	e.overlay = map[string][]byte{}
	root := filepath.Join(e.verifDir, "harness", "overlay")
	return filepath.Walk(root, func(p string, info os.FileInfo, err error) error {
		if err != nil || info.IsDir() {
			return err
		}
		rel, _ := filepath.Rel(root, p)
		b, err := os.ReadFile(p)
		if err != nil {
			return err
		}
		e.overlay[filepath.Join(e.repoDir, rel)] = b
		return nil
	})
}

func (e *Engine) load() error {
	if err := e.readOverlay(); err != nil {
		return err
	}
	cfg := &packages.Config{
		Mode: packages.NeedName | packages.NeedFiles | packages.NeedCompiledGoFiles | packages.NeedImports | packages.NeedDeps |
			packages.NeedTypes | packages.NeedSyntax | packages.NeedTypesInfo | packages.NeedTypesSizes | packages.NeedModule,
		Dir:        e.repoDir,
		BuildFlags: []string{"-tags=verif", "-mod=mod"},
		Env:        append(os.Environ(), "GOFLAGS=-mod=mod", "GOPROXY=off", "GOSUMDB=off", "GOTOOLCHAIN=local"),
		Overlay:    e.overlay,
	}
	pkgs, err := packages.Load(cfg, "./...")
	if err != nil {
		return err
	}
	for _, p := range pkgs {
		if p.Module != nil && p.Module.Main {
			e.modPath = p.Module.Path
		}
	}
	nerr := 0
	packages.Visit(pkgs, nil, func(p *packages.Package) {
		for _, er := range p.Errors {
			if e.isRepoPkg(p.PkgPath) {
				fmt.Fprintln(os.Stderr, "load error:", er)
				nerr++
			}
		}
	})
	if nerr > 0 {
		return fmt.Errorf("%d package load errors (repo does not type-check with the harness overlay)", nerr)
	}
	e.pkgs = pkgs
	prog, spkgs := ssautil.AllPackages(pkgs, ssa.InstantiateGenerics)
	prog.Build()
	e.prog = prog
	e.ssaPkgs = spkgs
	return nil
}

// harnessFuncs returns the harness entry points Verif<PROP>_* of a property.
func (e *Engine) harnessFuncs(prop string) []*ssa.Function {
	var out []*ssa.Function
	for _, p := range e.ssaPkgs {
		if p == nil || !e.isRepoPkg(p.Pkg.Path()) {
			continue
		}
		for name, m := range p.Members {
			if f, ok := m.(*ssa.Function); ok && strings.HasPrefix(name, "Verif"+prop+"_") {
				out = append(out, f)
			}
		}
	}
	sort.Slice(out, func(i, j int) bool { return out[i].String() < out[j].String() })
	return out
}

// assertLabels statically collects the labels of verifrt.Assert / Reachable calls reachable from fn inside harness files.
func (e *Engine) staticLabels(fn *ssa.Function) map[string]bool {
	labels := map[string]bool{}
	seen := map[*ssa.Function]bool{}
	var walk func(f *ssa.Function)
	walk = func(f *ssa.Function) {
		if seen[f] || f.Blocks == nil {
			return
		}
		seen[f] = true
		for _, b := range f.Blocks {
			for _, ins := range b.Instrs {
				for _, op := range ins.Operands(nil) {
					if mc, ok := (*op).(*ssa.MakeClosure); ok {
						if cf, ok := mc.Fn.(*ssa.Function); ok && e.isHarnessFn(cf) {
							walk(cf)
						}
					}
				}
				var cc *ssa.CallCommon
				switch c := ins.(type) {
				case *ssa.Call:
					cc = &c.Call
				case *ssa.Defer:
					cc = &c.Call
				}
				if cc == nil || cc.IsInvoke() {
					continue
				}
				callee, ok := cc.Value.(*ssa.Function)
				if !ok {
					continue
				}
				n := callee.String()
				if i := strings.Index(n, verifrtPath); i >= 0 {
					prim := n[i+len(verifrtPath):]
					if prim == "Assert" || prim == "Reachable" {
						idx := 1
						pre := "assert:"
						if prim == "Reachable" {
							idx, pre = 0, "witness:"
						}
						if c, ok := cc.Args[idx].(*ssa.Const); ok {
							labels[pre+strings.Trim(c.Value.ExactString(), "\"")] = true
						}
					}
					continue
				}
				if e.isHarnessFn(callee) {
					walk(callee)
				}
			}
		}
		for _, af := range f.AnonFuncs {
			walk(af)
		}
	}
	walk(fn)
	return labels
}

func (e *Engine) isHarnessFn(f *ssa.Function) bool {
	pos := f.Pos()
	if !pos.IsValid() {
		if f.Parent() != nil {
			return e.isHarnessFn(f.Parent())
		}
		return false
	}
	return strings.Contains(filepath.Base(e.prog.Fset.Position(pos).Filename), "zz_verif_")
}

type workItem struct {
	h      *ssa.Function
	prefix []int
}

type checkResult struct {
	Violations   []*Violation
	Known        []string
	Inconclusive []string
	Vacuous      []string
}

func (e *Engine) newExec(tf *TF, solver *Solver, h *ssa.Function, prefix []int) *Exec {
	return &Exec{tf: tf, eng: e, prog: e.prog, solver: solver, harness: h.Name(), harnessPkg: h.Pkg, harnessFn: h, choiceVals: map[string]uint64{},
		facts: map[int]bool{}, bounds: map[int]rng{}, prefix: prefix, globals: map[*ssa.Global]Node{}, readMemo: map[[2]int]*Term{},
		labelSeq: map[string]int{}, reached: map[string]bool{}, inits: map[*ssa.Package]bool{},
		unwind: e.unwind, intrUsed: map[string]bool{}, funcsRun: map[*ssa.Function]bool{}, sentinels: map[string]Value{},
		bypass: map[*ssa.Function]bool{}}
}

// runPath executes one path; it returns the alternatives discovered and how the path ended.
func (e *Engine) runPath(ex *Exec, h *ssa.Function) (status string, msg string) {
	defer func() {
		if r := recover(); r != nil {
			switch x := r.(type) {
			case pathEnd:
				status, msg = "ended", x.why
			case unsupported:
				status, msg = "unsupported", x.msg
			default:
				status, msg = "crash", fmt.Sprintf("%v at %s\n%s", r, ex.posStr(ex.curPos), debug.Stack())
			}
		}
	}()
	ex.call(h, nil, nil)
	ex.yield() // goroutines still queued when the harness returns run now (their run-time checks count)
	return "done", ""
}

func (e *Engine) runHarnesses(hs []*ssa.Function) {
	var qmu sync.Mutex
	var queue []workItem
	pending := 0
	cond := sync.NewCond(&qmu)
	for _, h := range hs {
		queue = append(queue, workItem{h, nil})
	}
	var wg sync.WaitGroup
	for w := 0; w < e.workers; w++ {
		wg.Add(1)
		go func(w int) {
			defer wg.Done()
			tf := NewTF()
			solver := NewSolver(e.stats)
			defer solver.Close()
			for {
				qmu.Lock()
				if atomic.LoadInt32(&e.stop) != 0 {
					queue = nil
				}
				for len(queue) == 0 && pending > 0 {
					cond.Wait()
				}
				if len(queue) == 0 && pending == 0 {
					qmu.Unlock()
					cond.Broadcast()
					return
				}
				it := queue[len(queue)-1]
				queue = queue[:len(queue)-1]
				pending++
				qmu.Unlock()

				ex := e.newExec(tf, solver, it.h, it.prefix)
				status, msg := e.runPath(ex, it.h)
				e.collect(ex, it.h, status, msg)

				qmu.Lock()
				if atomic.LoadInt32(&e.stop) == 0 {
					for _, a := range ex.alts {
						queue = append(queue, workItem{it.h, a})
					}
				}
				pending--
				qmu.Unlock()
				cond.Broadcast()
				// keep term table from growing without bound
				if len(tf.tab) > 3000000 {
					solver.Close()
					tf = NewTF()
					solver = NewSolver(e.stats)
				}
			}
		}(w)
	}
	wg.Wait()
}

func (e *Engine) collect(ex *Exec, h *ssa.Function, status, msg string) {
	e.mu.Lock()
	defer e.mu.Unlock()
	e.decisions += len(ex.decs)
	e.steps += int64(ex.steps)
	switch status {
	case "done":
		e.pathsDone++
		e.reached["end:"+h.Name()] = true
		if e.samplesPerHarness > 0 && len(e.okSamples[h.Name()]) < e.samplesPerHarness && len(ex.violations) == 0 && !ex.nativeUnsupported {
			// translator validation: a concrete input of this completed path is later run natively - it must not fail there either
			e.mu.Unlock()
			_, m := ex.solver.Check(ex.pc, ex.tf.True, true)
			e.mu.Lock()
			if m != nil && len(e.okSamples[h.Name()]) < e.samplesPerHarness {
				v := &Violation{Harness: h.Name(), Kind: "sample", Label: fmt.Sprintf("ok-path-%d", len(e.okSamples[h.Name()])), Model: m,
					Path: append([]int{}, ex.decs...), Choices: ex.copyChoices(), Pkg: ex.harnessPkg.Pkg.Name(), PkgDir: ex.harnessDir()}
				e.okSamples[h.Name()] = append(e.okSamples[h.Name()], v)
			}
		}
		if len(e.samples) < 6 {
			e.samples = append(e.samples, fmt.Sprintf("%s: path %v completed, %d steps, |pc|=%d", h.Name(), compactPath(ex.decs), ex.steps, len(ex.pc)))
		}
	case "ended":
		e.pathsEnded++
	case "unsupported":
		e.inconcl[h.Name()+": "+msg]++
	case "crash":
		e.inconcl[h.Name()+": ENGINE CRASH "+msg]++
	}
	for k := range ex.reached {
		e.reached[h.Name()+"|"+k] = true
	}
	for f := range ex.funcsRun {
		e.funcsRun[f.String()] = len(f.Blocks)
	}
	for k := range ex.intrUsed {
		e.intrUsed[k] = true
	}
	for _, a := range ex.accel {
		e.accelLoops[a] = true
	}
	var fresh []*Violation
	for _, v := range ex.violations {
		if _, ok := e.violations[v.Sig()]; !ok {
			e.violations[v.Sig()] = v
			fresh = append(fresh, v)
		}
	}
	if len(fresh) > 0 && e.earlyStop {
		// confirm outside the lock; a confirmed, unlisted violation ends the exploration early
		e.mu.Unlock()
		for _, v := range fresh {
			if e.isKnown(v) {
				continue
			}
			path, ok := e.writeReplay(e.prop, v)
			e.mu.Lock()
			e.confirmed[v.Sig()] = confirmation{path, ok}
			e.mu.Unlock()
			if ok {
				atomic.StoreInt32(&e.stop, 1)
			}
		}
		e.mu.Lock()
	}
	if e.verbose {
		fmt.Fprintf(os.Stderr, "[path] %s %v -> %s %s (steps %d, pc %d, alts %d)\n", h.Name(), compactPath(ex.decs), status, msg, ex.steps, len(ex.pc), len(ex.alts))
	}
}

func compactPath(d []int) string {
	var sb strings.Builder
	for _, x := range d {
		switch {
		case x == 0:
			sb.WriteByte('F')
		case x == 1:
			sb.WriteByte('T')
		case x == 2:
			sb.WriteByte('f')
		case x == 3:
			sb.WriteByte('t')
		default:
			fmt.Fprintf(&sb, "[%d]", x-10)
		}
	}
	s := sb.String()
	if len(s) > 80 {
		s = s[:40] + "..." + s[len(s)-30:]
	}
	return s
}

// ---------- known findings ----------

type knownFinding struct {
	Property  string `json:"property"`
	Signature string `json:"signature"`
	Status    string `json:"status"`
	Commit    string `json:"commit,omitempty"`
	What      string `json:"what"`
}

func (e *Engine) loadKnown() []knownFinding {
	var f struct {
		Findings []knownFinding `json:"findings"`
	}
	b, err := os.ReadFile(filepath.Join(e.verifDir, "known_findings.json"))
	if err != nil {
		return nil
	}
	json.Unmarshal(b, &f)
	return f.Findings
}

// ---------- evidence ----------

func (e *Engine) writeEvidence(prop string, hs []*ssa.Function, wall time.Duration, nviol int, extra map[string]interface{}) error {
	st := e.stats
	type fe struct {
		Name   string `json:"name"`
		Blocks int    `json:"blocks"`
	}
	var repoF, depF, stdF []string
	for name := range e.funcsRun {
		switch {
		case strings.Contains(name, e.modPath):
			repoF = append(repoF, name)
		case strings.Contains(name, "."+"com/") || strings.Contains(name, "golang.org/") || strings.Contains(name, "gopkg.in/"):
			depF = append(depF, name)
		default:
			stdF = append(stdF, name)
		}
	}
	sort.Strings(repoF)
	sort.Strings(depF)
	sort.Strings(stdF)
	var obl []map[string]interface{}
	var sigs []string
	for s := range e.obligations {
		sigs = append(sigs, s)
	}
	sort.Strings(sigs)
	nObl := 0
	for _, s := range sigs {
		o := e.obligations[s]
		nObl += o.Unsat + o.Sat + o.Unknown
		verdict := "holds"
		if o.Sat > 0 {
			verdict = "violated"
		} else if o.Unknown > 0 {
			verdict = "unknown"
		}
		obl = append(obl, map[string]interface{}{"obligation": s, "verdict": verdict, "queries_unsat": o.Unsat, "queries_sat": o.Sat, "queries_unknown": o.Unknown, "decided_by": o.Who})
	}
	samples := []interface{}{}
	for i, o := range obl {
		if i < 12 {
			samples = append(samples, o)
		}
	}
	for _, s := range e.samples {
		samples = append(samples, s)
	}
	var hnames []string
	for _, h := range hs {
		hnames = append(hnames, h.String())
	}
	var inc []string
	for k, n := range e.inconcl {
		inc = append(inc, fmt.Sprintf("%s (x%d)", k, n))
	}
	sort.Strings(inc)
	cov := map[string]interface{}{
		"states":                        e.pathsDone + e.pathsEnded,
		"transitions":                   e.decisions,
		"traces_validated_against_impl": e.tracesValidated,
		"traces_validation":             "for the first completed path(s) of each natively runnable harness a model of the path condition is run through the natively compiled harness + real code; it must end without assertion failure or panic, as the engine concluded",
		"samples":                       samples,
		"paths_completed":               e.pathsDone,
		"paths_cut_by_assume":           e.pathsEnded,
		"ssa_instructions_executed":     e.steps,
		"harnesses":                     hnames,
		"obligations_by_site":           obl,
		"obligation_queries":            nObl,
		"functions_encoded":             map[string]interface{}{"repo": repoF, "dependencies": depF, "stdlib": stdF},
		"intrinsics":                    sortedStrings(e.intrUsed),
		"accelerated_loops":             sortedStrings(e.accelLoops),
		"bounds":                        e.bounds,
		"choices":                       e.choices,
		"queries": map[string]interface{}{"feasibility": st.Feas, "assertion": st.Assertion, "sat": st.SatN, "unsat": st.UnsatN,
			"unknown": st.UnknownN, "cache_hits": st.CacheHits, "witness_model_hits": st.WitnessHits, "portfolio_fallbacks": st.Fallbacks, "decided_by_fallback": st.SolversUsed},
		"solver_time_s":   st.SolverTime.Seconds(),
		"max_query_s":     st.MaxQuery.Seconds(),
		"solvers":         []string{"z3 4.8.12 (one process per worker, (reset) + full formula per query)", "portfolio on unknown: z3 4.8.12 fresh, z3-new 5.1.0, cvc5 1.0.x --solve-bv-as-int=sum"},
		"witnesses":       sortedStrings(e.reached),
		"inconclusive":    inc,
		"exhaustive":      false,
		"encoding_source": "go/ssa built from " + e.repoDir + " working tree on this run (overlay: /verif/harness/overlay)",
	}
	for k, v := range extra {
		cov[k] = v
	}
	ev := map[string]interface{}{
		"property_id": prop,
		"tier":        e.tier,
		"seed":        e.seed,
		"level":       "model_checking",
		"coverage":    cov,
		"assumptions": []string{
			"go/ssa is taken as the meaning of the source (linux/amd64); the Go compiler back end is not covered",
			"intrinsic models listed under coverage.intrinsics; environment stubs are the Go code in /verif/harness/overlay",
			"result holds only within coverage.bounds and the Assume statements of the harnesses",
			"SMT solvers are trusted (sat answers are replayed natively)",
		},
		"wall_s":     wall.Seconds(),
		"violations": nviol,
	}
	b, _ := json.MarshalIndent(ev, "", " ")
	os.MkdirAll(filepath.Join(e.verifDir, "evidence"), 0o755)
	return os.WriteFile(filepath.Join(e.verifDir, "evidence", prop+".json"), b, 0o644)
}

func newEngine() *Engine {
	e := &Engine{repoDir: "/repo", verifDir: "/verif", tier: "quick", sizes: types.SizesFor("gc", "amd64"),
		stats: &Stats{}, maxVisits: 5000000, maxSteps: 100000000, unwind: 64, forkMinMax: true, workers: runtime.NumCPU(),
		bounds: map[string]int64{}, obligations: map[string]*oblStat{}, inconcl: map[string]int{}, stubCache: map[string]*ssa.Function{},
		choices: map[string]map[int]int{}, funcsRun: map[string]int{}, intrUsed: map[string]bool{}, accelLoops: map[string]bool{},
		reached: map[string]bool{}, violations: map[string]*Violation{}, confirmed: map[string]confirmation{}, earlyStop: true, okSamples: map[string][]*Violation{}, samplesPerHarness: 1}
	if v := os.Getenv("VERIF_REPO"); v != "" {
		e.repoDir = v
	}
	if v := os.Getenv("VERIF_DIR"); v != "" {
		e.verifDir = v
	}
	e.gomodcache = goEnv("GOMODCACHE")
	e.goroot = goEnv("GOROOT")
	return e
}

func (e *Engine) debugDump() {
	for _, p := range e.pkgs {
		if strings.Contains(p.PkgPath, "iprange") || strings.Contains(p.PkgPath, "verifrt") {
			fmt.Fprintln(os.Stderr, "PKG", p.PkgPath, p.CompiledGoFiles, len(p.Errors))
		}
	}
	fmt.Fprintln(os.Stderr, "npkgs", len(e.pkgs), "overlay", len(e.overlay), "mod", e.modPath)
}

// baseFuncName strips the type arguments of an instantiated generic function's name.
func baseFuncName(n string) string {
	if i := strings.Index(n, "["); i >= 0 {
		return n[:i]
	}
	return n
}

package main

// Intrinsics: verification primitives (verifrt), models of standard-library
// functions that cannot be executed from SSA (assembly, reflection, unsafe,
// the runtime), and environment models (time, sync.Pool, logging).

import (
	"fmt"
	"go/types"
	"strings"

	"golang.org/x/tools/go/ssa"
)

type intrinsic func(ex *Exec, fn *ssa.Function, args []Value) Value

const verifrtPath = "/internal/verifrt."

func lookupIntrinsic(ex *Exec, fn *ssa.Function) intrinsic {
	name := fn.String()
	if i := strings.Index(name, verifrtPath); i >= 0 {
		if in, ok := verifrtTable[name[i+len(verifrtPath):]]; ok {
			return in
		}
		return nil
	}
	// a stub provided by the running harness has priority over the engine's own models
	if st := ex.eng.stubFor(ex, fn); st != nil {
		return func(ex *Exec, _ *ssa.Function, args []Value) Value {
			// the stub may call the real function: inside it the interception is off
			ex.bypass[fn] = true
			defer delete(ex.bypass, fn)
			return ex.call(st, args, nil)
		}
	}
	if in, ok := intrinsicTable[name]; ok {
		return in
	}
	pkg := ""
	if fn.Pkg != nil {
		pkg = fn.Pkg.Pkg.Path()
	} else if fn.Signature.Recv() != nil {
		if n := recvNamed(fn.Signature.Recv().Type()); n != nil && n.Obj().Pkg() != nil {
			pkg = n.Obj().Pkg().Path()
		}
	}
	if strings.HasPrefix(name, "unique.Make[") {
		// unique.Make(v): the canonical handle of v. Values made here are canonicalised by structural equality
		// against the values made earlier on this path (the comparison must be decidable without the solver).
		return func(ex *Exec, fn *ssa.Function, args []Value) Value {
			for _, u := range ex.uniques {
				if e := ex.valEq(u.v, args[0]); e.IsConst() {
					if e.IsTrue() {
						return StructV{F: []Value{u.p}}
					}
				} else {
					panic(unsupported{"unique.Make of a value with symbolic content"})
				}
			}
			n := ex.newNode(fn.Signature.Params().At(0).Type())
			ex.storeNode(n, args[0])
			p := PtrV{N: n}
			ex.uniques = append(ex.uniques, uniqueEntry{args[0], p})
			return StructV{F: []Value{p}}
		}
	}
	switch pkg {
	case "log/slog", "log", "github.com/lmittmann/tint":
		return zeroResult
	case "internal/race", "internal/msan", "internal/asan":
		return zeroResult
	}
	if strings.HasSuffix(pkg, "/internal/logutil") {
		return zeroResult
	}
	if pkg == "unicode" && fn.Signature.Recv() == nil && fn.Name() != "init" && fn.Signature.Params().Len() > 0 {
		// table-driven character classification: exact for concrete runes, unconstrained result for symbolic ones
		return func(ex *Exec, fn *ssa.Function, args []Value) Value {
			if nat := nativeCall(ex, fn, args); nat != nil {
				return nat.v
			}
			res := fn.Signature.Results()
			if res.Len() == 1 {
				ex.timeSeq++
				ex.intrUsed["unicode."+fn.Name()+" of a symbolic rune: unconstrained result (over-approximation)"] = true
				if w, _, ok := intWidth(res.At(0).Type()); ok {
					return IntV{ex.tf.Var(fmt.Sprintf("unicode.%s#%d.%d", fn.Name(), len(ex.decs), ex.timeSeq), w)}
				}
				if b, ok := res.At(0).Type().Underlying().(*types.Basic); ok && b.Info()&types.IsBoolean != 0 {
					return BoolV{ex.tf.Var(fmt.Sprintf("unicode.%s#%d.%d", fn.Name(), len(ex.decs), ex.timeSeq), 0)}
				}
			}
			panic(unsupported{"unicode." + fn.Name() + " with symbolic arguments"})
		}
	}
	// harness-provided stub for a dependency function (only consulted when an argument is symbolic)
	if st := ex.eng.stubFor(ex, fn); st != nil {
		return func(ex *Exec, _ *ssa.Function, args []Value) Value {
			// the stub may call the real function: inside it the interception is off
			ex.bypass[fn] = true
			defer delete(ex.bypass, fn)
			return ex.call(st, args, nil)
		}
	}
	if _, ok := nativeTable[name]; ok {
		return func(ex *Exec, fn *ssa.Function, args []Value) Value {
			if nat := nativeCall(ex, fn, args); nat != nil {
				return nat.v
			}
			if fn.Blocks == nil {
				panic(unsupported{"native-only function with symbolic arguments: " + fn.String()})
			}
			return ex.callBody(fn, args)
		}
	}
	return nil
}

// callBody runs fn from its SSA body, bypassing intrinsic lookup.
func (ex *Exec) callBody(fn *ssa.Function, args []Value) Value {
	ex.bypass[fn] = true
	defer delete(ex.bypass, fn)
	return ex.call(fn, args, nil)
}

func recvNamed(t types.Type) *types.Named {
	if p, ok := t.(*types.Pointer); ok {
		t = p.Elem()
	}
	n, _ := t.(*types.Named)
	return n
}

func zeroResult(ex *Exec, fn *ssa.Function, args []Value) Value {
	res := fn.Signature.Results()
	switch res.Len() {
	case 0:
		return nil
	case 1:
		return ex.zero(res.At(0).Type())
	}
	return ex.zero(res)
}

func (ex *Exec) fresh(label string, w int) *Term {
	seq := ex.labelSeq[label]
	ex.labelSeq[label] = seq + 1
	name := fmt.Sprintf("%s#%d", label, seq)
	if ex.concMode {
		v, ok := ex.concrete[name]
		if !ok {
			v = 0
		}
		if w == 0 {
			return ex.tf.Bool(v != 0)
		}
		return ex.tf.Const(w, v)
	}
	v := ex.tf.Var(name, w)
	if pv, ok := ex.pins[name]; ok {
		// replay inside the engine: the counterexample's value is imposed
		if w == 0 {
			if pv != 0 {
				ex.addPC(v)
			} else {
				ex.addPC(ex.tf.BNot(v))
			}
		} else {
			ex.addPC(ex.tf.Eq(v, ex.tf.Const(w, pv)))
		}
	}
	return v
}

func (ex *Exec) argStr(v Value, what string) string {
	s, ok := ex.strConcrete(v.(StrV))
	if !ok {
		panic(unsupported{what + " must be a concrete string"})
	}
	return s
}

var verifrtTable map[string]intrinsic
var intrinsicTable map[string]intrinsic

func init() {
	nd := func(w int) intrinsic {
		return func(ex *Exec, fn *ssa.Function, args []Value) Value {
			return IntV{ex.fresh(ex.argStr(args[0], "label"), w)}
		}
	}
	verifrtTable = map[string]intrinsic{
		"Int": nd(64), "Int64": nd(64), "Uint64": nd(64), "Uint32": nd(32), "Int32": nd(32), "Uint16": nd(16), "Byte": nd(8),
		"Bool": func(ex *Exec, fn *ssa.Function, args []Value) Value {
			return BoolV{ex.fresh(ex.argStr(args[0], "label"), 0)}
		},
		"Symbolic": func(ex *Exec, fn *ssa.Function, args []Value) Value { return BoolV{ex.tf.True} },
		"ConcreteBuffers": func(ex *Exec, fn *ssa.Function, args []Value) Value {
			ex.concreteCopies = true
			return nil
		},
		"Inconclusive": func(ex *Exec, fn *ssa.Function, args []Value) Value {
			panic(unsupported{"harness cannot observe: " + ex.argStr(args[0], "reason")})
		},
		"Goroutines": func(ex *Exec, fn *ssa.Function, args []Value) Value {
			ex.allowGo = true
			return nil
		},
		"Yield": func(ex *Exec, fn *ssa.Function, args []Value) Value {
			ex.yield()
			return nil
		},
		"NativeUnsupported": func(ex *Exec, fn *ssa.Function, args []Value) Value {
			ex.nativeUnsupported = true
			return nil
		},
		"Bytes": func(ex *Exec, fn *ssa.Function, args []Value) Value {
			label := ex.argStr(args[0], "label")
			n := args[1].(IntV).T
			seq := ex.labelSeq[label]
			ex.labelSeq[label] = seq + 1
			arr := fmt.Sprintf("%s#%d", label, seq)
			ex.require(ex.tf.Sle(ex.tf.Const(64, 0), n), "alloc", "verifrt.Bytes", "negative length")
			b := ex.newBytes(n, newLayer(layer{kind: lArr, whole: true, arr: arr}))
			if ex.concMode {
				b.head = zeroBase
				if n.IsConst() {
					for i := uint64(0); i < n.val; i++ {
						if v, ok := ex.concrete[fmt.Sprintf("%s[%d]", arr, i)]; ok {
							ex.bytesWrite(b, ex.tf.Const(64, i), ex.tf.Const(8, v))
						}
					}
				}
			}
			return SliceV{Arr: b, Off: ex.tf.Const(64, 0), Len: n, Cap: n}
		},
		"ByteAt": func(ex *Exec, fn *ssa.Function, args []Value) Value {
			arr := ex.argStr(args[0], "array name")
			i := args[1].(IntV).T
			if ex.concMode {
				v := ex.concrete[fmt.Sprintf("%s[%d]", arr, i.val)]
				return IntV{ex.tf.Const(8, v)}
			}
			return IntV{ex.tf.Apply(arr, 8, i)}
		},
		"FillFromArray": func(ex *Exec, fn *ssa.Function, args []Value) Value {
			dst := args[0].(SliceV)
			arr := ex.argStr(args[1], "array name")
			pos := args[2].(IntV).T
			if dst.Arr == nil {
				return nil
			}
			if ex.concMode {
				n := dst.Len.val
				for i := uint64(0); i < n; i++ {
					v := ex.concrete[fmt.Sprintf("%s[%d]", arr, pos.val+i)]
					ex.bytesWrite(dst.Arr.(*BytesNode), ex.tf.Const(64, dst.Off.val+i), ex.tf.Const(8, v))
				}
				return nil
			}
			ex.bytesArrIn(dst.Arr.(*BytesNode), dst.Off, dst.Len, arr, pos)
			return nil
		},
		"UF": func(ex *Exec, fn *ssa.Function, args []Value) Value {
			name := ex.argStr(args[0], "function name")
			a, b, c := args[1].(IntV).T, args[2].(IntV).T, args[3].(IntV).T
			if ex.concMode {
				return IntV{ex.tf.Const(8, ex.concrete[fmt.Sprintf("%s[%d,%d,%d]", name, a.val, b.val, c.val)])}
			}
			return IntV{ex.tf.Apply(name, 8, a, b, c)}
		},
		"MapBytes": func(ex *Exec, fn *ssa.Function, args []Value) Value {
			dst, src := args[0].(SliceV), args[1].(SliceV)
			name := ex.argStr(args[2], "function name")
			tag := args[3].(IntV).T
			if src.Arr == nil {
				return nil
			}
			ex.require(ex.tf.Ule(src.Len, dst.Len), "index", "verifrt.MapBytes", "dst shorter than src")
			d := dst.Arr.(*BytesNode)
			snap := src.Arr.(*BytesNode).freeze()
			d.freeze()
			d.head = newLayer(layer{kind: lMap, lo: dst.Off, n: src.Len, src: snap, slo: src.Off, arr: name, idx: tag, next: d.head})
			return nil
		},
		"SameSlice": func(ex *Exec, fn *ssa.Function, args []Value) Value {
			a, b := args[0].(SliceV), args[1].(SliceV)
			tf := ex.tf
			if a.Arr != b.Arr {
				return BoolV{tf.BAnd(tf.Eq(a.Len, tf.Const(64, 0)), tf.Eq(b.Len, tf.Const(64, 0)))}
			}
			return BoolV{tf.BAnd(tf.Eq(a.Len, b.Len), tf.BOr(tf.Eq(a.Len, tf.Const(64, 0)), tf.Eq(a.Off, b.Off)))}
		},
		"Assume": func(ex *Exec, fn *ssa.Function, args []Value) Value {
			ex.assume(args[0].(BoolV).T)
			return nil
		},
		"Assert": func(ex *Exec, fn *ssa.Function, args []Value) Value {
			label := ex.argStr(args[1], "assert label")
			ex.reached["assert:"+label] = true
			ex.require(args[0].(BoolV).T, "assert", label, "")
			return nil
		},
		"Reachable": func(ex *Exec, fn *ssa.Function, args []Value) Value {
			ex.reached["witness:"+ex.argStr(args[0], "label")] = true
			return nil
		},
		"Bound": func(ex *Exec, fn *ssa.Function, args []Value) Value {
			name := ex.argStr(args[0], "bound name")
			q, t := args[1].(IntV).T, args[2].(IntV).T
			v := q
			if ex.eng.tier == "thorough" {
				v = t
			}
			ex.eng.noteBound(name, v.SVal())
			return IntV{v}
		},
		"Choice": func(ex *Exec, fn *ssa.Function, args []Value) Value {
			label := ex.argStr(args[0], "label")
			n := args[1].(IntV).T
			if !n.IsConst() {
				panic(unsupported{"Choice with symbolic n"})
			}
			if ex.concMode {
				t := ex.fresh(label, 64)
				return IntV{t}
			}
			seq := ex.labelSeq[label]
			ex.labelSeq[label] = seq + 1
			if pv, ok := ex.pins[fmt.Sprintf("%s#%d", label, seq)]; ok {
				return IntV{ex.tf.Const(64, pv%n.val)}
			}
			if pv, ok := ex.eng.pinChoices[fmt.Sprintf("%s#%d", label, seq)]; ok {
				ex.choiceVals[fmt.Sprintf("%s#%d", label, seq)] = pv % n.val
				return IntV{ex.tf.Const(64, pv%n.val)}
			}
			c := ex.choice(int(n.val))
			ex.eng.noteChoice(fmt.Sprintf("%s#%d", label, seq), c, ex)
			return IntV{ex.tf.Const(64, uint64(c))}
		},
		"Fork": func(ex *Exec, fn *ssa.Function, args []Value) Value {
			return BoolV{ex.tf.Bool(ex.branch(args[0].(BoolV).T))}
		},
		"Observe": func(ex *Exec, fn *ssa.Function, args []Value) Value {
			label := ex.argStr(args[0], "label")
			v := args[1].(IntV).T
			if v.IsConst() {
				ex.observed = append(ex.observed, fmt.Sprintf("%s=%d", label, v.SVal()))
			} else {
				ex.observed = append(ex.observed, label+"=<sym>")
			}
			return nil
		},
		"Time": func(ex *Exec, fn *ssa.Function, args []Value) Value {
			t := ex.fresh(ex.argStr(args[0], "label"), 64)
			return ex.mkTime(t)
		},
		"TimeUnix": func(ex *Exec, fn *ssa.Function, args []Value) Value {
			return ex.mkTime(args[0].(IntV).T)
		},
		"ConcreteString": func(ex *Exec, fn *ssa.Function, args []Value) Value {
			// fork over the feasible concrete values of a short symbolic string is not supported; just normalise
			return ex.normStr(args[0].(StrV))
		},
	}

	intrinsicTable = map[string]intrinsic{
		"errors.Is":          intrErrorsIs,
		"fmt.Errorf":         intrErrorf,
		"fmt.Sprintf":        intrSprintf,
		"fmt.Sprint":         intrSprintOpaque,
		"fmt.Appendf":        intrAppendf,
		"fmt.Printf":         zeroResult,
		"fmt.Println":        zeroResult,
		"fmt.Fprintf":        zeroResult,
		"context.WithCancel": intrWithCancel,
		"context.Background": func(ex *Exec, fn *ssa.Function, args []Value) Value {
			return IfaceV{T: ex.eng.namedType("context", "backgroundCtx"), V: ex.zero(ex.eng.namedType("context", "backgroundCtx"))}
		},
		// sync.Map used sequentially: a map with concrete keys attached to the receiver's node
		"(*sync.Map).Load": func(ex *Exec, fn *ssa.Function, args []Value) Value {
			v, ok := ex.mapGet(MapV{M: ex.syncMapOf(args[0])}, args[1])
			if !ok {
				return TupleV{IfaceV{}, BoolV{ex.tf.False}}
			}
			return TupleV{v, BoolV{ex.tf.True}}
		},
		"(*sync.Map).Store": func(ex *Exec, fn *ssa.Function, args []Value) Value {
			ex.mapSet(MapV{M: ex.syncMapOf(args[0])}, args[1], args[2])
			return nil
		},
		"(*sync.Map).LoadOrStore": func(ex *Exec, fn *ssa.Function, args []Value) Value {
			m := MapV{M: ex.syncMapOf(args[0])}
			if v, ok := ex.mapGet(m, args[1]); ok {
				return TupleV{v, BoolV{ex.tf.True}}
			}
			ex.mapSet(m, args[1], args[2])
			return TupleV{args[2], BoolV{ex.tf.False}}
		},
		"(*sync.Map).Delete": func(ex *Exec, fn *ssa.Function, args []Value) Value {
			ex.syncMapDelete(ex.syncMapOf(args[0]), args[1])
			return nil
		},
		"(*sync.Map).LoadAndDelete": func(ex *Exec, fn *ssa.Function, args []Value) Value {
			m := ex.syncMapOf(args[0])
			v, ok := ex.mapGet(MapV{M: m}, args[1])
			if !ok {
				return TupleV{IfaceV{}, BoolV{ex.tf.False}}
			}
			ex.syncMapDelete(m, args[1])
			return TupleV{v, BoolV{ex.tf.True}}
		},
		"(*sync.Map).Clear": func(ex *Exec, fn *ssa.Function, args []Value) Value {
			m := ex.syncMapOf(args[0])
			m.keys, m.vals = nil, nil
			return nil
		},
		"(*sync.Pool).Get":        intrPoolGet,
		"(*sync.Pool).Put":        intrPoolPut,
		"(*sync.Mutex).Lock":      zeroResult,
		"(*sync.Mutex).Unlock":    zeroResult,
		"(*sync.RWMutex).Lock":    zeroResult,
		"(*sync.RWMutex).Unlock":  zeroResult,
		"(*sync.RWMutex).RLock":   zeroResult,
		"(*sync.RWMutex).RUnlock": zeroResult,
		"(*sync.Once).Do": func(ex *Exec, fn *ssa.Function, args []Value) Value {
			p := args[0].(PtrV)
			if ex.onceDone == nil {
				ex.onceDone = map[Node]bool{}
			}
			if !ex.onceDone[p.N] {
				ex.onceDone[p.N] = true
				ex.callFunc(args[1].(FuncV), nil, 0)
			}
			return nil
		},
		"time.Now":             intrTimeNow,
		"(time.Time).UTC":      func(ex *Exec, fn *ssa.Function, args []Value) Value { return args[0] },
		"(time.Time).Local":    func(ex *Exec, fn *ssa.Function, args []Value) Value { return args[0] },
		"(time.Time).Unix":     func(ex *Exec, fn *ssa.Function, args []Value) Value { return IntV{timeExt(args[0])} },
		"(time.Time).UnixNano": func(ex *Exec, fn *ssa.Function, args []Value) Value { return IntV{timeExt(args[0])} },
		"(time.Time).IsZero": func(ex *Exec, fn *ssa.Function, args []Value) Value {
			return BoolV{ex.tf.Eq(timeExt(args[0]), ex.tf.Const(64, 0))}
		},
		"(time.Time).Add": func(ex *Exec, fn *ssa.Function, args []Value) Value {
			return ex.mkTime(ex.tf.Add(timeExt(args[0]), args[1].(IntV).T))
		},
		"(time.Time).Sub": func(ex *Exec, fn *ssa.Function, args []Value) Value {
			return IntV{ex.tf.Sub(timeExt(args[0]), timeExt(args[1]))}
		},
		"(time.Time).Before": func(ex *Exec, fn *ssa.Function, args []Value) Value {
			return BoolV{ex.tf.Slt(timeExt(args[0]), timeExt(args[1]))}
		},
		"(time.Time).After": func(ex *Exec, fn *ssa.Function, args []Value) Value {
			return BoolV{ex.tf.Slt(timeExt(args[1]), timeExt(args[0]))}
		},
		"(time.Time).Equal": func(ex *Exec, fn *ssa.Function, args []Value) Value {
			return BoolV{ex.tf.Eq(timeExt(args[0]), timeExt(args[1]))}
		},
		"(time.Time).Date":  intrTimeDate,
		"(time.Time).Clock": intrTimeClock,
		"(time.Time).Zone":  intrTimeZone,
		"(time.Time).Nanosecond": func(ex *Exec, fn *ssa.Function, args []Value) Value {
			return IntV{ex.timeField("nanosecond", timeExt(args[0]), 0, 999999999)}
		},
		"(time.Time).Year": func(ex *Exec, fn *ssa.Function, args []Value) Value {
			return IntV{ex.timeField("year", timeExt(args[0]), 0, 9999)}
		},
		"(time.Time).String": func(ex *Exec, fn *ssa.Function, args []Value) Value { return concStr("<time>") },
		"time.Unix":          func(ex *Exec, fn *ssa.Function, args []Value) Value { return ex.mkTime(args[0].(IntV).T) },

		"encoding/binary.Read":   intrBinaryRead,
		"encoding/binary.Write":  intrBinaryWrite,
		"encoding/binary.Decode": intrBinaryDecode,
		"encoding/binary.Size":   intrBinarySize,

		"bytes.Compare":                    intrBytesCompare,
		"internal/bytealg.Compare":         intrBytesCompare,
		"bytes.IndexByte":                  intrIndexByte,
		"internal/bytealg.IndexByte":       intrIndexByte,
		"internal/bytealg.IndexByteString": intrIndexByte,
		"strings.IndexByte":                intrIndexByte,
		"(*crypto/rand.reader).Read": func(ex *Exec, fn *ssa.Function, args []Value) Value {
			// arbitrary bytes
			p := args[1].(SliceV)
			if p.Arr != nil {
				ex.timeSeq++
				ex.bytesArrIn(p.Arr.(*BytesNode), p.Off, p.Len, fmt.Sprintf("randbytes#%d", ex.timeSeq), ex.tf.Const(64, 0))
			}
			return TupleV{IntV{p.Len}, IfaceV{}}
		},
		"ConcreteBuffersPlaceholder":   zeroResult,
		"internal/bytealg.CountString": intrCountByte,
		"internal/bytealg.Count":       intrCountByte,
		"strings.EqualFold":            intrEqualFold,
		"strings.ToLower":              intrCaseMap(false),
		"strings.ToUpper":              intrCaseMap(true),
		"internal/bytealg.MakeNoZero": func(ex *Exec, fn *ssa.Function, args []Value) Value {
			n := args[0].(IntV).T
			return ex.makeSlice(types.Typ[types.Uint8], n, n)
		},
		"(*strings.Builder).copyCheck": zeroResult,
		"(*strings.Builder).String": func(ex *Exec, fn *ssa.Function, args []Value) Value {
			sn := args[0].(PtrV).N.(*StructNode)
			// fields: addr *Builder, buf []byte
			buf := ex.loadNode(sn.F[1]).(SliceV)
			if buf.Arr == nil {
				return concStr("")
			}
			return ex.normStr(StrV{Mem: buf.Arr.(*BytesNode).freeze(), Off: buf.Off, N: buf.Len})
		},
		"(*golang.org/x/text/encoding.Encoder).String": intrUTF16BE,
		"golang.org/x/text/encoding/unicode.UTF16": func(ex *Exec, fn *ssa.Function, args []Value) Value {
			t := ex.eng.namedType("golang.org/x/text/encoding/unicode", "utf16Encoding")
			return IfaceV{T: t, V: ex.zero(t)}
		},
		"(io.discard).ReadFrom": func(ex *Exec, fn *ssa.Function, args []Value) Value {
			// io.Discard.ReadFrom: read until EOF into a scratch buffer (the real one comes from a sync.Pool)
			tf := ex.tf
			r := args[1].(IfaceV)
			buf := ex.newBytes(tf.Const(64, 8192), newLayer(layer{kind: lArr, whole: true, arr: "discardbuf"}))
			sl := SliceV{Arr: buf, Off: tf.Const(64, 0), Len: buf.n, Cap: buf.n}
			total := tf.Const(64, 0)
			for i := 0; ; i++ {
				if i > ex.unwind {
					panic(unsupported{"io.Discard.ReadFrom: too many reads"})
				}
				res := ex.invoke(r, "Read", sl).(TupleV)
				total = tf.Add(total, res[0].(IntV).T)
				if err := res[1].(IfaceV); err.T != nil {
					if ex.ifaceEq(err, ex.sentinel("io.EOF").(IfaceV)) {
						return TupleV{IntV{total}, IfaceV{}}
					}
					return TupleV{IntV{total}, err}
				}
			}
		},
		"runtime.GC":                    zeroResult,
		"runtime.Gosched":               zeroResult,
		"runtime.KeepAlive":             zeroResult,
		"runtime.SetFinalizer":          zeroResult,
		"crypto/aes.NewCipher":          intrHarnessRequired("crypto/aes.NewCipher"),
		"crypto/cipher.NewCBCDecrypter": intrHarnessRequired("crypto/cipher.NewCBCDecrypter"),
		"crypto/cipher.NewCBCEncrypter": intrHarnessRequired("crypto/cipher.NewCBCEncrypter"),
	}
}

func intrHarnessRequired(name string) intrinsic {
	return func(ex *Exec, fn *ssa.Function, args []Value) Value {
		if st := ex.eng.stubFor(ex, fn); st != nil {
			ex.bypass[fn] = true
			defer delete(ex.bypass, fn)
			return ex.call(st, args, nil)
		}
		panic(unsupported{name + " needs a harness stub (verifStub_...)"})
	}
}

// ---------- errors ----------

func (ex *Exec) ifaceEq(a, b IfaceV) bool {
	t := ex.valEq(a, b)
	if !t.IsConst() {
		panic(unsupported{"symbolic interface equality"})
	}
	return t.IsTrue()
}

func intrErrorsIs(ex *Exec, fn *ssa.Function, args []Value) Value {
	err, target := args[0].(IfaceV), args[1].(IfaceV)
	if err.T == nil || target.T == nil {
		return BoolV{ex.tf.Bool(err.T == nil && target.T == nil)}
	}
	return BoolV{ex.tf.Bool(ex.errIs(err, target, 0))}
}

func (ex *Exec) errIs(err, target IfaceV, depth int) bool {
	for ; depth < 50; depth++ {
		if types.Comparable(target.T) && ex.ifaceEq(err, target) {
			return true
		}
		if ex.hasMethod(err.T, "Is") {
			r := ex.invoke(err, "Is", target).(BoolV).T
			if !r.IsConst() {
				panic(unsupported{"symbolic result of Is method"})
			}
			if r.IsTrue() {
				return true
			}
		}
		if !ex.hasMethod(err.T, "Unwrap") {
			return false
		}
		u := ex.invoke(err, "Unwrap")
		switch u := u.(type) {
		case IfaceV:
			if u.T == nil {
				return false
			}
			err = u
		case SliceV:
			if u.Arr == nil {
				return false
			}
			n := ex.concretize(u.Len, "joined errors")
			off := ex.concretize(u.Off, "joined errors")
			for i := uint64(0); i < n; i++ {
				e := ex.loadNode(u.Arr.(*ArrayNode).E[off+i]).(IfaceV)
				if e.T != nil && ex.errIs(e, target, depth+1) {
					return true
				}
			}
			return false
		default:
			return false
		}
	}
	return false
}

// newError creates a fresh distinct error value (*errors.errorString).
func (ex *Exec) newError(msg string) IfaceV {
	t := ex.eng.namedType("errors", "errorString")
	n := ex.newNode(t).(*StructNode)
	ex.storeNode(n.F[0], concStr(msg))
	return IfaceV{T: types.NewPointer(t), V: PtrV{N: n}}
}

// parseVerbs returns the verb letters of a printf format in operand order.
func parseVerbs(format string) []byte {
	var verbs []byte
	for i := 0; i < len(format); i++ {
		if format[i] != '%' {
			continue
		}
		i++
		for i < len(format) && strings.IndexByte("+-# 0123456789.*[]", format[i]) >= 0 {
			i++
		}
		if i < len(format) {
			if format[i] != '%' {
				verbs = append(verbs, format[i])
			}
		}
	}
	return verbs
}

func (ex *Exec) variadic(v Value) []Value {
	s := v.(SliceV)
	if s.Arr == nil {
		return nil
	}
	n := ex.concretize(s.Len, "variadic length")
	off := ex.concretize(s.Off, "variadic offset")
	out := make([]Value, n)
	for i := range out {
		out[i] = ex.loadNode(s.Arr.(*ArrayNode).E[off+uint64(i)])
	}
	return out
}

func intrErrorf(ex *Exec, fn *ssa.Function, args []Value) Value {
	format, _ := ex.strConcrete(args[0].(StrV))
	ops := ex.variadic(args[1])
	verbs := parseVerbs(format)
	var wrapped []IfaceV
	for i, v := range verbs {
		if v == 'w' && i < len(ops) {
			if e, ok := ops[i].(IfaceV); ok && e.T != nil {
				wrapped = append(wrapped, e)
			}
		}
	}
	switch len(wrapped) {
	case 0:
		return ex.newError("fmt.Errorf(" + format + ")")
	case 1:
		t := ex.eng.namedType("fmt", "wrapError")
		n := ex.newNode(t).(*StructNode)
		ex.storeNode(n.F[0], concStr("fmt.Errorf("+format+")"))
		ex.storeNode(n.F[1], wrapped[0])
		return IfaceV{T: types.NewPointer(t), V: PtrV{N: n}}
	}
	panic(unsupported{"fmt.Errorf with several %w"})
}

func intrSprintf(ex *Exec, fn *ssa.Function, args []Value) Value {
	if nat := nativeCall(ex, fn, args); nat != nil {
		return nat.v
	}
	return concStr("<formatted>")
}

func intrSprintOpaque(ex *Exec, fn *ssa.Function, args []Value) Value { return concStr("<formatted>") }

// fmt.Appendf for formats made only of %0Nd verbs (the ISO 9660 volume timestamp): exact digits.
func intrAppendf(ex *Exec, fn *ssa.Function, args []Value) Value {
	tf := ex.tf
	dst := args[0].(SliceV)
	format, ok := ex.strConcrete(args[1].(StrV))
	if !ok {
		panic(unsupported{"fmt.Appendf with symbolic format"})
	}
	ops := ex.variadic(args[2])
	var out []*Term
	oi := 0
	for i := 0; i < len(format); i++ {
		if format[i] != '%' {
			out = append(out, tf.Const(8, uint64(format[i])))
			continue
		}
		// expect %0Nd
		j := i + 1
		width := 0
		if j < len(format) && format[j] == '0' {
			j++
		} else {
			panic(unsupported{"fmt.Appendf format " + format})
		}
		for j < len(format) && format[j] >= '0' && format[j] <= '9' {
			width = width*10 + int(format[j]-'0')
			j++
		}
		if j >= len(format) || format[j] != 'd' || width == 0 || oi >= len(ops) {
			panic(unsupported{"fmt.Appendf format " + format})
		}
		iv, ok := ops[oi].(IfaceV)
		if !ok {
			panic(unsupported{"fmt.Appendf operand"})
		}
		v := iv.V.(IntV).T
		if v.w < 64 {
			v = tf.SExt(v, 64)
		}
		oi++
		pow := uint64(1)
		for k := 0; k < width; k++ {
			pow *= 10
		}
		// a value outside [0, 10^width) prints more characters: the caller's length check is then reachable
		ex.require(tf.BAnd(tf.Sle(tf.Const(64, 0), v), tf.Slt(v, tf.Const(64, pow))), "format", ex.posStr(ex.curPos),
			fmt.Sprintf("%%0%dd operand may need more than %d digits", width, width))
		div := pow / 10
		for k := 0; k < width; k++ {
			d := tf.URem(tf.UDiv(v, tf.Const(64, div)), tf.Const(64, 10))
			out = append(out, tf.Add(tf.Extract(d, 7, 0), tf.Const(8, '0')))
			div /= 10
		}
		i = j
	}
	tmp := ex.newBytes(tf.Const(64, uint64(len(out))), zeroBase)
	for k, t := range out {
		ex.bytesWrite(tmp, tf.Const(64, uint64(k)), t)
	}
	src := SliceV{Arr: tmp, Off: tf.Const(64, 0), Len: tmp.n, Cap: tmp.n}
	return ex.appendBuiltin(dst, src, nil)
}

// ---------- context / sync ----------

func intrWithCancel(ex *Exec, fn *ssa.Function, args []Value) Value {
	return TupleV{args[0], FuncV{Nat: func(ex *Exec, a []Value) Value { return nil }}}
}

func poolNewField(ex *Exec, p PtrV) FuncV {
	sn := p.N.(*StructNode)
	return ex.loadNode(sn.F[len(sn.F)-1]).(FuncV)
}

func intrPoolGet(ex *Exec, fn *ssa.Function, args []Value) Value {
	p := args[0].(PtrV)
	if ex.pool == nil {
		ex.pool = map[Node][]Value{}
	}
	nf := poolNewField(ex, p)
	if nf.Fn == nil && nf.Nat == nil {
		return IfaceV{}
	}
	v := ex.callFunc(nf, nil, 0)
	// a pooled buffer may have been used by anyone before: arbitrary content
	if iv, ok := v.(IfaceV); ok {
		if pv, ok := iv.V.(PtrV); ok && pv.N != nil {
			if sc, ok := pv.N.(*ScalarNode); ok {
				if sl, ok := sc.V.(SliceV); ok {
					if bn, ok := sl.Arr.(*BytesNode); ok && !ex.concMode {
						ex.timeSeq++
						bn.mut = nil
						bn.head = newLayer(layer{kind: lArr, whole: true, arr: fmt.Sprintf("poolbuf#%d", ex.timeSeq)})
					}
				}
			}
		}
	}
	return v
}

func intrPoolPut(ex *Exec, fn *ssa.Function, args []Value) Value { return nil }

// ---------- time ----------

func (ex *Exec) mkTime(ext *Term) Value {
	return StructV{F: []Value{IntV{ex.tf.Const(64, 0)}, IntV{ext}, PtrV{}}}
}

func timeExt(v Value) *Term { return v.(StructV).F[1].(IntV).T }

func intrTimeNow(ex *Exec, fn *ssa.Function, args []Value) Value {
	tf := ex.tf
	t := ex.fresh("time.Now", 64)
	if !ex.concMode {
		lo := tf.Const(64, 1) // the zero instant is reserved for time.Time{}
		if ex.lastNow != nil {
			lo = ex.lastNow
		}
		ex.addPC(tf.Sle(lo, t))
		ex.addPC(tf.Slt(t, tf.Const(64, 1<<62)))
	}
	ex.lastNow = t
	return ex.mkTime(t)
}

func (ex *Exec) timeField(name string, ext *Term, lo, hi int64) *Term {
	tf := ex.tf
	if ext.IsConst() {
		// concrete instants are only used in replays of harnesses that do not depend on calendar fields
		return tf.Const(64, uint64(lo))
	}
	f := tf.Apply("time."+name, 64, ext)
	c := tf.BAnd(tf.Sle(tf.Const(64, uint64(lo)), f), tf.Sle(f, tf.Const(64, uint64(hi))))
	if !ex.facts[c.id] {
		ex.addPC(c)
	}
	return f
}

func intrTimeDate(ex *Exec, fn *ssa.Function, args []Value) Value {
	e := timeExt(args[0])
	return TupleV{IntV{ex.timeField("year", e, 0, 9999)}, IntV{ex.timeField("month", e, 1, 12)}, IntV{ex.timeField("day", e, 1, 31)}}
}
func intrTimeClock(ex *Exec, fn *ssa.Function, args []Value) Value {
	e := timeExt(args[0])
	return TupleV{IntV{ex.timeField("hour", e, 0, 23)}, IntV{ex.timeField("minute", e, 0, 59)}, IntV{ex.timeField("second", e, 0, 59)}}
}
func intrTimeZone(ex *Exec, fn *ssa.Function, args []Value) Value {
	e := timeExt(args[0])
	return TupleV{concStr("ZZZ"), IntV{ex.timeField("zoneoffset", e, -12*3600, 14*3600)}}
}

// ---------- bytes ----------

func (ex *Exec) asStr(v Value) StrV {
	switch x := v.(type) {
	case StrV:
		return x
	case SliceV:
		if x.Arr == nil {
			return concStr("")
		}
		return StrV{Mem: x.Arr.(*BytesNode).freeze(), Off: x.Off, N: x.Len}
	}
	panic(fmt.Sprintf("asStr %T", v))
}

func intrBytesCompare(ex *Exec, fn *ssa.Function, args []Value) Value {
	return IntV{ex.bytesCompare(ex.asStr(args[0]), ex.asStr(args[1]))}
}

func intrIndexByte(ex *Exec, fn *ssa.Function, args []Value) Value {
	tf := ex.tf
	s := ex.asStr(args[0])
	c := args[1].(IntV).T
	n := ex.strLen(s)
	ub, ok := ex.upperBound(n)
	if !ok {
		ub = ex.concretize(n, "length of the buffer searched by IndexByte")
	}
	res := tf.Const(64, ^uint64(0))
	for k := int64(ub) - 1; k >= 0; k-- {
		kt := tf.Const(64, uint64(k))
		hit := tf.BAnd(tf.Ult(kt, n), tf.Eq(ex.strByte(s, kt), c))
		res = tf.Ite(hit, kt, res)
	}
	return IntV{res}
}

// UTF-16BE encoding of a string (the Joliet identifier encoder), ASCII only for symbolic content.
func intrUTF16BE(ex *Exec, fn *ssa.Function, args []Value) Value {
	tf := ex.tf
	s := args[1].(StrV)
	if cs, ok := ex.strConcrete(s); ok {
		var out []byte
		for _, r := range cs {
			if r > 0xFFFF {
				r -= 0x10000
				hi, lo := 0xD800+(r>>10), 0xDC00+(r&0x3FF)
				out = append(out, byte(hi>>8), byte(hi), byte(lo>>8), byte(lo))
				continue
			}
			out = append(out, byte(r>>8), byte(r))
		}
		return TupleV{concStr(string(out)), IfaceV{}}
	}
	n := ex.strLen(s)
	cn := ex.concretize(n, "string length for UTF-16 encoding")
	tmp := ex.newBytes(tf.Const(64, 2*cn), zeroBase)
	for k := uint64(0); k < cn; k++ {
		b := ex.strByte(s, tf.Const(64, k))
		ex.require(tf.Ult(b, tf.Const(8, 0x80)), "model", "utf16", "UTF-16 model covers ASCII only")
		ex.bytesWrite(tmp, tf.Const(64, 2*k+1), b)
	}
	return TupleV{StrV{Mem: tmp.freeze(), Off: tf.Const(64, 0), N: tmp.n}, IfaceV{}}
}

func intrCountByte(ex *Exec, fn *ssa.Function, args []Value) Value {
	tf := ex.tf
	s := ex.asStr(args[0])
	c := args[1].(IntV).T
	n := ex.strLen(s)
	ub, ok := ex.upperBound(n)
	if !ok {
		ub = ex.concretize(n, "length of counted string")
	}
	res := tf.Const(64, 0)
	for k := uint64(0); k < ub; k++ {
		kt := tf.Const(64, k)
		hit := tf.BAnd(tf.Ult(kt, n), tf.Eq(ex.strByte(s, kt), c))
		res = tf.Add(res, tf.Ite(hit, tf.Const(64, 1), tf.Const(64, 0)))
	}
	return IntV{res}
}

// strings.ToLower / ToUpper on a symbolic string: exact for ASCII content; if some byte is not
// ASCII the result is an unconstrained string (case mapping of multi-byte and invalid sequences
// is not modelled - an over-approximation, listed in the evidence).
func intrCaseMap(upper bool) intrinsic {
	return func(ex *Exec, fn *ssa.Function, args []Value) Value {
		tf := ex.tf
		s := args[0].(StrV)
		if nat := nativeCall(ex, fn, args); nat != nil {
			return nat.v
		}
		n := ex.concretize(ex.strLen(s), "length of case-mapped string")
		bytesOf := make([]*Term, n)
		var ascii []*Term
		for k := range bytesOf {
			bytesOf[k] = ex.strByte(s, tf.Const(64, uint64(k)))
			ascii = append(ascii, tf.Ult(bytesOf[k], tf.Const(8, 0x80)))
		}
		if ex.branch(tf.BAnd(ascii...)) {
			tmp := ex.newBytes(tf.Const(64, n), zeroBase)
			for k, b := range bytesOf {
				lo, hi, d := uint64('A'), uint64('Z'), uint64(32)
				if upper {
					lo, hi, d = 'a', 'z', ^uint64(31) // -32
				}
				in := tf.BAnd(tf.Ule(tf.Const(8, lo), b), tf.Ule(b, tf.Const(8, hi)))
				ex.bytesWrite(tmp, tf.Const(64, uint64(k)), tf.Ite(in, tf.Add(b, tf.Const(8, d)), b))
			}
			return ex.normStr(StrV{Mem: tmp.freeze(), Off: tf.Const(64, 0), N: tf.Const(64, n)})
		}
		ex.timeSeq++
		name := fmt.Sprintf("casemap#%d", ex.timeSeq)
		ln := ex.tf.Var(name+".len", 64)
		ex.addPC(tf.Ule(ln, tf.Const(64, 3*n)))
		return StrV{Mem: newLayer(layer{kind: lArr, whole: true, arr: name}), Off: tf.Const(64, 0), N: ln}
	}
}

// strings.EqualFold on symbolic strings: exact for ASCII content (byte-wise comparison ignoring ASCII case);
// if some byte is not ASCII the result is unconstrained (over-approximation, listed in the evidence).
func intrEqualFold(ex *Exec, fn *ssa.Function, args []Value) Value {
	tf := ex.tf
	if nat := nativeCall(ex, fn, args); nat != nil {
		return nat.v
	}
	a, b := args[0].(StrV), args[1].(StrV)
	la, lb := ex.strLen(a), ex.strLen(b)
	na := ex.concretize(la, "length of folded string")
	nb := ex.concretize(lb, "length of folded string")
	var ascii []*Term
	lower := func(c *Term) *Term {
		in := tf.BAnd(tf.Ule(tf.Const(8, 'A'), c), tf.Ule(c, tf.Const(8, 'Z')))
		return tf.Ite(in, tf.Add(c, tf.Const(8, 32)), c)
	}
	var eq []*Term
	for k := uint64(0); k < na; k++ {
		ascii = append(ascii, tf.Ult(ex.strByte(a, tf.Const(64, k)), tf.Const(8, 0x80)))
	}
	for k := uint64(0); k < nb; k++ {
		ascii = append(ascii, tf.Ult(ex.strByte(b, tf.Const(64, k)), tf.Const(8, 0x80)))
	}
	if ex.branch(tf.BAnd(ascii...)) {
		if na != nb {
			return BoolV{tf.False}
		}
		for k := uint64(0); k < na; k++ {
			kt := tf.Const(64, k)
			eq = append(eq, tf.Eq(lower(ex.strByte(a, kt)), lower(ex.strByte(b, kt))))
		}
		return BoolV{tf.BAnd(eq...)}
	}
	ex.timeSeq++
	ex.intrUsed["strings.EqualFold of non-ASCII symbolic text: unconstrained result (over-approximation)"] = true
	return BoolV{tf.Var(fmt.Sprintf("equalfold#%d.%d", len(ex.decs), ex.timeSeq), 0)}
}

// ---------- sync.Map (sequential use) ----------

func (ex *Exec) syncMapOf(recv Value) *MapObj {
	p := recv.(PtrV)
	if ex.syncMaps == nil {
		ex.syncMaps = map[Node]*MapObj{}
	}
	m := ex.syncMaps[p.N]
	if m == nil {
		m = &MapObj{}
		ex.syncMaps[p.N] = m
	}
	return m
}

func (ex *Exec) syncMapDelete(m *MapObj, k Value) {
	for i, kk := range m.keys {
		e := ex.valEq(kk, k)
		if !e.IsConst() {
			panic(unsupported{"sync.Map with symbolic key"})
		}
		if e.IsTrue() {
			m.keys = append(m.keys[:i], m.keys[i+1:]...)
			m.vals = append(m.vals[:i], m.vals[i+1:]...)
			return
		}
	}
}

type uniqueEntry struct {
	v Value
	p PtrV
}

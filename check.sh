#!/bin/sh
# usage: ./check.sh <PROPERTY> [quick|thorough]   (cwd = /verif)
# Rebuilds the engine when its sources are newer than the binary, then decides the property
# on /repo's current working tree (go/ssa is rebuilt from source on every run).
set -u
cd "$(dirname "$0")" || exit 3
VERIF_DIR="$(pwd)"; export VERIF_DIR
export GOFLAGS=-mod=mod GOPROXY=off GOSUMDB=off GOTOOLCHAIN=local CARGO_NET_OFFLINE=true PIP_NO_INDEX=1
if [ ! -x bin/symgo ] || [ -n "$(find engine -name '*.go' -newer bin/symgo 2>/dev/null | head -1)" ]; then
  mkdir -p bin
  (cd engine && go build -o ../bin/symgo .) || { echo "engine build failed" >&2; exit 3; }
fi
exec bin/symgo check "$@"
